"""C20 (B): (G) translator for typed records + lookup-name enums.

Reads the LIVE dataclass schemas (dataclasses.fields + schema metadata, ID_ATTR write order exactly as
InventoryBase.to_writer computes it) of InventoryItem / InventoryCategory / InventoryObject /
InventoryPermissions / InventorySaleInfo and the live lookup tables of AssetType / InventoryType /
FolderType / SaleType, and emits coq/gen/C20_records.v:

  * one Coq `schema` term per class, `wf_schema = true` by vm_compute, and the generic theorem
    record_roundtrip instantiated at it;
  * per enum: members, to/from tables (obtained by CALLING to_lookup_name / from_lookup_name), the list of
    exceptions (members whose name does not come back) and `enum_rt_all = true` by vm_compute.

Fails closed (raises) on a spec class it does not know, a nested block deeper than one level, a
default_factory, or an enum exception that is not the recorded known finding.
Also: encoders turning live objects into the driver's record syntax (correspondence).
"""
from __future__ import annotations

import calendar
import dataclasses
import datetime as dt
import io

ENUMS = ("AssetType", "InventoryType", "FolderType", "SaleType")
KNOWN_ENUM_EXCEPTIONS = {("FolderType", 26)}        # known finding c20-foldertype-ensemble


def _classes():
    from hippolyzer.lib.base import inventory as inv
    return [inv.InventoryItem, inv.InventoryCategory, inv.InventoryObject, inv.InventoryPermissions, inv.InventorySaleInfo]


def undef_text():
    from hippolyzer.lib.base.legacy_schema import SchemaLLSD
    t = SchemaLLSD.serialize(None)
    if not t.endswith("\n|") or "\n" in t[:-2]:
        raise RuntimeError("SchemaLLSD.serialize(None) has an unexpected shape: %r" % t)
    return t[:-2]


def enum_tables():
    import hippolyzer.lib.base.templates as t
    out = {}
    for en in ENUMS:
        cls = getattr(t, en)
        members = [int(m) for n, m in cls.__members__.items() if m.name == n]
        to_tbl = [(int(m), m.to_lookup_name()) for n, m in cls.__members__.items() if m.name == n]
        names = []
        for _, s in to_tbl:
            if s not in names:
                names.append(s)
        from_tbl = [(s, int(cls.from_lookup_name(s))) for s in names]
        back = dict(from_tbl)
        exc = [v for v, s in to_tbl if back.get(s) != v]
        for v in exc:
            if (en, v) not in KNOWN_ENUM_EXCEPTIONS:
                raise RuntimeError("lookup name of %s(%d) does not round-trip and is not a recorded finding" % (en, v))
        out[en] = {"members": members, "to": to_tbl, "from": from_tbl, "exc": exc}
    return out


def kind_of(spec):
    """-> ('KInt',) ... ('KEnum', enum_name) / ('KLLSD',) / ('BLOCK', cls)"""
    import inspect
    from hippolyzer.lib.base import legacy_schema as ls
    from hippolyzer.lib.base import inventory as inv
    if inspect.isclass(spec):
        if issubclass(spec, ls.SchemaBase):
            return ("BLOCK", spec)
        exact = {ls.SchemaStr: "KStr", ls.SchemaMultilineStr: "KMStr", ls.SchemaInt: "KInt", ls.SchemaDate: "KDate",
                 ls.SchemaHexInt: "KHex", inv.SchemaFlagField: "KFlag", ls.SchemaUUID: "KUUID", ls.SchemaLLSD: "KLLSD"}
        if spec in exact:
            # SchemaFlagField must not override the text functions of SchemaHexInt
            if spec is inv.SchemaFlagField and ("serialize" in spec.__dict__ or "deserialize" in spec.__dict__):
                raise RuntimeError("SchemaFlagField overrides the text functions")
            return (exact[spec],)
        raise RuntimeError("unknown schema spec class %r" % spec)
    if type(spec) is inv.SchemaEnumField:
        return ("KEnum", spec._enum_cls.__name__)
    raise RuntimeError("unknown schema spec instance %r" % (spec,))


def write_order(cls):
    """the (name, dataclasses.Field) pairs in the order InventoryBase.to_writer visits them"""
    fields_dict = {}
    if hasattr(cls, "ID_ATTR"):
        fields_dict = {getattr(cls, "ID_ATTR"): None}
    fields_dict.update(cls._get_fields_dict())
    return [(n, f) for n, f in fields_dict.items() if f is not None and f.metadata.get("spec")]


def live_schema(cls, nested=False):
    out = []
    for name, f in write_order(cls):
        if f.default_factory is not dataclasses.MISSING:
            raise RuntimeError("default_factory on %s.%s" % (cls.__name__, name))
        kd = kind_of(f.metadata["spec"])
        if kd[0] == "BLOCK":
            if nested:
                raise RuntimeError("nested block deeper than one level: %s.%s" % (cls.__name__, name))
            sub = live_schema(kd[1], nested=True)
            kd = ("BLOCK", kd[1].SCHEMA_NAME, sub, kd[1])
        out.append({"name": name, "kind": kd, "default": f.default, "inone": bool(f.metadata.get("include_none")),
                    "llsdonly": bool(f.metadata.get("llsd_only"))})
    return out


# ---------------------------------------------------------------------------- Coq printing

def cstr(s):
    return "[" + "; ".join(str(ord(c)) for c in s) + "]"


def ckind(kd):
    if kd[0] == "KEnum":
        return "(KEnum %s_to %s_from)" % (kd[1], kd[1])
    if kd[0] == "KLLSD":
        return "(KLLSD live_undef)"
    return kd[0]


def cpval(kd, v):
    if kd[0] in ("KInt", "KDate", "KEnum"):
        return "(VZ (%d)%%Z)" % int(v)
    if kd[0] in ("KHex", "KFlag"):
        return "(VN %d)" % int(v)
    if kd[0] in ("KStr", "KMStr"):
        return "(VS %s)" % cstr(v)
    raise RuntimeError("default value of kind %s not supported" % kd[0])


def cdefault(kd, d, outer):
    if d is dataclasses.MISSING:
        return "None"
    if d is None:
        return "(Some None)"
    if kd[0] == "BLOCK":
        raise RuntimeError("non-None default for a nested block")
    return "(Some (Some %s))" % (("(P %s)" % cpval(kd, d)) if outer else cpval(kd, d))


def cbool(b):
    return "true" if b else "false"


def cschema(fields):
    rows = []
    for f in fields:
        kd = f["kind"]
        if kd[0] == "BLOCK":
            sub = ";\n      ".join("mkPF %s %s %s %s %s" % (cstr(g["name"]), ckind(g["kind"]), cdefault(g["kind"], g["default"], False),
                                                           cbool(g["inone"]), cbool(g["llsdonly"])) for g in kd[2])
            spec = "(FB %s [\n      %s ])" % (cstr(kd[1]), sub)
        else:
            spec = "(FP %s)" % ckind(kd)
        rows.append("mkF %s %s %s %s %s" % (cstr(f["name"]), spec, cdefault(kd, f["default"], True), cbool(f["inone"]), cbool(f["llsdonly"])))
    return "[\n  " + ";\n  ".join(rows) + " ]"


def emit(path):
    tabs = enum_tables()
    classes = _classes()
    src = ["(* generated by harness/translate/c20_records.py from the live dataclass schemas and lookup tables - do not edit *)",
           "From Coq Require Import NArith ZArith List Bool.",
           "From HV Require Import Asset.Schema Asset.Digits Asset.Record Asset.RecordProofs.",
           "Import ListNotations.", "Local Open Scope N_scope.", ""]
    for en in ENUMS:
        t = tabs[en]
        src.append("Definition %s_members : list Z := [%s]%%Z." % (en, "; ".join("(%d)" % v for v in t["members"])))
        src.append("Definition %s_to : list (Z * str) := [\n  %s ]." % (en, ";\n  ".join("((%d)%%Z, %s)" % (v, cstr(s)) for v, s in t["to"])))
        src.append("Definition %s_from : list (str * Z) := [\n  %s ]." % (en, ";\n  ".join("(%s, (%d)%%Z)" % (cstr(s), v) for s, v in t["from"])))
        src.append("(* members whose lookup name does not come back (known finding c20-foldertype-ensemble) *)")
        src.append("Definition %s_exceptions : list Z := [%s]%%Z." % (en, "; ".join("(%d)" % v for v in t["exc"])))
        src.append("Lemma %s_rt_all : enum_rt_all %s_members %s_exceptions %s_to %s_from = true.\nProof. vm_compute. reflexivity. Qed." % (en, en, en, en, en))
        src.append("""Theorem %s_lookup_roundtrip : forall e, In e %s_members -> ~ In e %s_exceptions ->
  exists s, assoc_z %s_to e = Some s /\\ assoc_s %s_from s = Some e.
Proof. exact (proj1 (enum_rt_all_spec _ _ _ _ %s_rt_all)). Qed.
Theorem %s_lookup_exceptions : forall e, In e %s_exceptions ->
  ~ exists s, assoc_z %s_to e = Some s /\\ assoc_s %s_from s = Some e.
Proof. exact (proj2 (enum_rt_all_spec _ _ _ _ %s_rt_all)). Qed.
""" % ((en,) * 11))
    src.append("Definition live_undef : str := %s." % cstr(undef_text()))
    names = []
    for cls in classes:
        nm = "live_" + cls.__name__
        names.append((nm, cls))
        src.append("(* %s: %s *)" % (cls.__name__, " ".join(n for n, _ in write_order(cls))))
        src.append("Definition %s_name : str := %s." % (nm, cstr(cls.SCHEMA_NAME)))
        src.append("Definition %s : schema := %s." % (nm, cschema(live_schema(cls))))
        src.append("Lemma %s_wf : wf_schema %s = true /\\ key_ok %s_name = true.\nProof. vm_compute. split; reflexivity. Qed." % (nm, nm, nm))
        src.append("""Theorem %s_roundtrip : forall r tail, dom %s r = true ->
  from_lines %s (skipn 1 (to_lines %s_name %s r) ++ tail) = Some (r, tail).
Proof. intros r tail H. exact (record_roundtrip %s_name %s r tail (proj1 %s_wf) H). Qed.
""" % ((nm,) * 8))
    src.append("Definition live_schemas : list (str * schema) := [\n  %s ]." % ";\n  ".join("(%s_name, %s)" % (nm, nm) for nm, _ in names))
    with open(path, "w") as f:
        f.write("\n".join(src) + "\n")
    return {"classes": [c.__name__ for c in classes], "enums": {en: (len(t["members"]), t["exc"]) for en, t in tabs.items()}}


# ---------------------------------------------------------------------------- driver record syntax

def _cps(s):
    return ",".join(str(ord(c)) for c in s)


def enc_prim(kd, v):
    if v is None:
        return "-"
    k = kd[0]
    if k in ("KStr", "KMStr"):
        return "S" + _cps(v)
    if k == "KInt":
        return "Z%d" % int(v)
    if k == "KDate":
        return "Z%d" % calendar.timegm(v.utctimetuple())
    if k == "KEnum":
        return "Z%d" % int(v)
    if k in ("KHex", "KFlag"):
        return "H%x" % int(v)
    if k == "KUUID":
        return "H%x" % v.int
    if k == "KLLSD":
        from hippolyzer.lib.base.legacy_schema import SchemaLLSD
        t = SchemaLLSD.serialize(v)
        return "S" + _cps(t[:-2])
    raise RuntimeError(k)


def enc_record(obj, fields):
    out = []
    for f in fields:
        v = getattr(obj, f["name"])
        kd = f["kind"]
        if kd[0] == "BLOCK":
            out.append("-" if v is None else "R[" + " ! ".join(enc_prim(g["kind"], getattr(v, g["name"])) for g in kd[2]) + "]")
        else:
            out.append(enc_prim(kd, v))
    return " ; ".join(out)


def enc_lines(lines):
    return " / ".join(_cps(l) for l in lines)


def impl_to_lines(obj):
    text = obj.to_str()
    assert text.endswith("\n")
    return text[:-1].split("\n")


def impl_from_lines(cls, lines, fields):
    """Cls.from_reader on the lines after the header token -> record encoding + lines left"""
    import logging
    logging.disable(logging.CRITICAL)
    reader = io.StringIO("".join(l + "\n" for l in lines))
    try:
        obj = cls.from_reader(reader)
    except Exception as e:
        return "ERR", type(e).__name__
    rest = reader.read().count("\n")
    if obj is None:
        return "NONE # %d" % rest, None
    try:
        return "%s # %d" % (enc_record(obj, fields), rest), None
    except Exception as e:
        return "UNENCODABLE:" + type(e).__name__, None


# ---------------------------------------------------------------------------- (3) LLSD flavours

FLAVOURS = ("legacy", "ais")


def live_llsd_schema(cls, flavour, nested=False):
    """fields of cls._get_fields_dict(llsd_flavor=flavour) in dict order, named by their LLSD key"""
    out = []
    fd = cls._get_fields_dict(llsd_flavor=flavour)
    names = [f.name for f in fd.values() if f.metadata.get("spec")]
    if len(set(names)) != len(names):
        raise RuntimeError("LLSD key table of %s/%s maps two keys to one field" % (cls.__name__, flavour))
    for key, f in fd.items():
        if not f.metadata.get("spec"):
            continue
        if f.default_factory is not dataclasses.MISSING:
            raise RuntimeError("default_factory on %s.%s" % (cls.__name__, f.name))
        kd = kind_of(f.metadata["spec"])
        if kd[0] == "BLOCK":
            if nested:
                raise RuntimeError("nested block deeper than one level")
            kd = ("BLOCK", kd[1].SCHEMA_NAME, live_llsd_schema(kd[1], flavour, nested=True), kd[1])
        out.append({"name": f.name, "key": key, "kind": kd, "default": f.default, "inone": False, "llsdonly": False})
    return out


def _as_keyed(fields):
    out = []
    for f in fields:
        g = dict(f)
        g["name"] = f["key"]
        if f["kind"][0] == "BLOCK":
            g["kind"] = ("BLOCK", f["key"], _as_keyed(f["kind"][2]), f["kind"][3])
        out.append(g)
    return out


def emit_llsd(path):
    classes = _classes()
    src = ["(* generated by harness/translate/c20_records.py: LLSD key tables per class and flavour - do not edit *)",
           "From Coq Require Import NArith ZArith List Bool.",
           "From HV Require Import Asset.Schema Asset.Digits Asset.Record Asset.RecordProofs Asset.Llsd Asset.LlsdProofs.",
           "From HVgen Require Import C20_records.",
           "Import ListNotations.", "Local Open Scope N_scope.", ""]
    rows = []
    for cls in classes:
        for fl in FLAVOURS:
            nm = "llsd_%s_%s" % (cls.__name__, fl)
            fields = live_llsd_schema(cls, fl)
            src.append("(* %s / %s: %s *)" % (cls.__name__, fl, " ".join("%s<-%s" % (f["key"], f["name"]) for f in fields)))
            src.append("Definition %s : schema := %s." % (nm, cschema(_as_keyed(fields))))
            src.append("Lemma %s_wf : wf_keys %s = true.\nProof. vm_compute. reflexivity. Qed." % (nm, nm))
            cfl = "Legacy" if fl == "legacy" else "Ais"
            src.append("""Theorem %s_roundtrip : forall r extra, dom_llsd %s %s r = true ->
  Forall (fun kv => find_field %s (fst kv) = None) extra ->
  from_llsd %s %s (to_llsd %s %s r ++ extra) = Some r.
Proof. intros r extra H He. exact (llsd_roundtrip %s %s r extra %s_wf H He). Qed.
""" % (nm, cfl, nm, nm, cfl, nm, cfl, nm, cfl, nm, nm))
            rows.append(nm)
    src.append("Definition live_llsd_schemas : list schema := [\n  %s ]." % ";\n  ".join(rows))
    with open(path, "w") as f:
        f.write("\n".join(src) + "\n")
    return len(rows)


def enc_lprim(kd, v, flavour):
    """a live to_llsd value -> driver syntax (by the Python type actually produced)"""
    from hippolyzer.lib.base.datatypes import UUID
    import uuid as _uuid
    if kd[0] == "KLLSD":
        from hippolyzer.lib.base.legacy_schema import SchemaLLSD
        return "x" + _cps(SchemaLLSD.serialize(v)[:-2])
    if isinstance(v, bool):
        return "?bool"
    if isinstance(v, (bytes, bytearray)):
        return "b" + bytes(v).hex()
    if isinstance(v, _uuid.UUID):
        return "u%x" % v.int
    if isinstance(v, int):
        return "i%d" % int(v)
    if isinstance(v, str):
        return "s" + _cps(v)
    return "?" + type(v).__name__


def enc_ldict(d, fields, flavour):
    by_key = {f["key"]: f for f in fields}
    out = []
    for k, v in d.items():
        f = by_key.get(k)
        if f is None:
            out.append("%s=?unknown" % _cps(k))
        elif f["kind"][0] == "BLOCK":
            sub = {g["key"]: g for g in f["kind"][2]}
            out.append("%s=m[%s]" % (_cps(k), " ! ".join("%s=%s" % (_cps(k2), enc_lprim(sub[k2]["kind"], v2, flavour)) for k2, v2 in v.items())))
        else:
            out.append("%s=%s" % (_cps(k), enc_lprim(f["kind"], v, flavour)))
    return " ; ".join(out)


def impl_to_llsd(obj, flavour):
    from hippolyzer.lib.base.legacy_schema import SchemaBase
    return SchemaBase.to_llsd(obj, flavour)


def impl_from_llsd(cls, d, flavour, fields):
    import logging
    logging.disable(logging.CRITICAL)
    from hippolyzer.lib.base.legacy_schema import SchemaBase
    try:
        obj = SchemaBase.from_llsd.__func__(cls, d, flavour)
    except Exception as e:
        return "ERR"
    if obj is None:
        return "NONE"
    try:
        return enc_record(obj, fields)
    except Exception as e:
        return "UNENCODABLE:" + type(e).__name__
