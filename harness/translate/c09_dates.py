"""C09 worker: check integer serializers that depend on the process time zone (the date adapters)
in a subprocess with a given TZ.  Usage:
    python -m harness.translate.c09_dates <TZ> <seed> <n_random> [<key> <z> ...]
prints one JSON object: {"tz":..., "evaluations": n, "violations": [...], "samples": [...]}.
With explicit (<key> <z>) pairs only those are evaluated (replay)."""
import json
import os
import sys
import time


def classify(z, got, mult):
    if isinstance(got, str):
        return "date-out-of-range-raises"
    d = abs(got - z)
    if d < mult:
        return "date-subsecond-truncation"
    rem = d % (900 * mult)
    if min(rem, 900 * mult - rem) < mult and d <= 7201 * mult:
        return "date-dst-fold"
    return "date-other"


def check_one(ser, z, pod):
    """returns None or (clause, got)"""
    import ast
    try:
        v = ser.deserialize({}, z, pod=pod)
    except Exception as e:
        return "integer is accepted by decode", "EXC:%s" % type(e).__name__
    try:
        r = ser.serialize({}, v)
    except Exception as e:
        return "decoded value re-encodes", "EXC:%s" % type(e).__name__
    if not isinstance(r, int) or r != z:
        return "integer survives decode-then-encode", r
    if pod:
        try:
            lit = ast.literal_eval(repr(v))
            ok = lit == v and ser.serialize({}, lit) == z
        except Exception:
            ok = False
        if not ok:
            return "plain-data repr() evaluates back to an equal value", repr(v)[:80]
    return None


def date_keys():
    """date-adapter keys of the live registry: (key, serializer, wire type, multiplier)"""
    from harness.translate import c09_registry
    import hippolyzer.lib.base.templates as T
    import hippolyzer.lib.base.serialization as se
    out = []
    for e in c09_registry.load().entries:
        ser = e.serializer
        a = getattr(ser, "ADAPTER", None)
        if isinstance(ser, type) and issubclass(ser, se.AdapterSubfieldSerializer) and type(a).__name__ == "DateAdapter":
            out.append((".".join(e.key), ser, c09_registry.WTY.get(e.vtype), int(getattr(a, "_multiplier", 1))))
    return out


def candidates(ty, mult, rng, n_random):
    from harness.translate.c09_registry import wire_range
    lo, hi = wire_range(ty)
    zs = [lo, lo + 1, -1, 0, 1, hi - 1, hi, hi // 2]
    # the two US transition nights of 2021 and of 2007, every 15 minutes, plus a European one
    for base in (1636261200, 1615701600, 1194152400, 1173596400, 1635642000, 1616893200):
        for q in range(-16, 17):
            t = base + q * 900
            zs.append(t * mult)
            if mult > 1:
                zs.append(t * mult + rng.randrange(mult))
    if mult > 1:
        zs += [1098554253192844, 1098554253192843, 999999, 1, 253402300799 * mult, 253402300800 * mult,
               2 ** 53, 2 ** 53 + 1, 2 ** 63, 2 ** 64 - 1, 2 ** 62 + 12345]
        for _ in range(n_random):
            zs.append(rng.randrange(0, 2 ** 51))           # plausible microsecond timestamps (1970..2041)
        for _ in range(n_random // 4):
            zs.append(rng.randrange(lo, hi + 1))
    else:
        for _ in range(n_random):
            zs.append(rng.randrange(lo, hi + 1))
    seen, out = set(), []
    for z in zs:
        if lo <= z <= hi and z not in seen:
            seen.add(z)
            out.append(z)
    return out


def main(argv):
    tz, seed, n_random = argv[0], int(argv[1]), int(argv[2])
    os.environ["TZ"] = tz
    time.tzset()
    import random
    rng = random.Random(seed)
    keys = date_keys()
    explicit = argv[3:]
    res = {"tz": tz, "evaluations": 0, "violations": [], "samples": [], "keys": [k[0] for k in keys], "counts": {}}
    per_class = {}
    for key, ser, ty, mult in keys:
        if ty is None:
            continue
        if explicit:
            zs = [int(explicit[i + 1]) for i in range(0, len(explicit), 2) if explicit[i] == key]
        else:
            zs = candidates(ty, mult, rng, n_random)
        for z in zs:
            for pod in (False, True):
                res["evaluations"] += 1
                bad = check_one(ser, z, pod)
                if bad is None:
                    continue
                clause, got = bad
                cls = classify(z, got, mult)
                res["counts"][cls] = res["counts"].get(cls, 0) + 1
                k = (key, cls, pod)
                per_class[k] = per_class.get(k, 0) + 1
                if per_class[k] <= (10 ** 9 if explicit else 2):
                    res["violations"].append({"kind": "date", "class": cls, "clause": clause, "key": key, "tz": tz,
                                              "pod": pod, "z": z, "got": got})
        if zs:
            res["samples"].append({"key": key, "tz": tz, "z": zs[len(zs) // 3],
                                   "decoded": _safe(ser, zs[len(zs) // 3])})
    print(json.dumps(res))


def _safe(ser, z):
    try:
        return ser.deserialize({}, z, pod=True)
    except Exception as e:
        return "EXC:" + type(e).__name__


if __name__ == "__main__":
    main(sys.argv[1:])
