"""C20: tie between the Coq model of the mesh container (coq/theories/Asset/MeshLayout.v) and the real
hippolyzer.lib.base.mesh.LLMeshSerializer, at container level.

The container logic is the model's; the contents are oracles evaluated by the real code:
  deflate k v  = zip_llsd(SEGMENT_TEMPLATES[k].serialize(v) if k has a template else v)    (real functions)
  inflate k b  = unzip_llsd(b) then SEGMENT_TEMPLATES[k].deserialize                        (real functions)
  the header   = real llsd.format_binary / se.BinaryLLSD

MW  a generated MeshAsset (header dict in a chosen key order, segments as decoded values and/or bytes, raw_segments,
    missing segments, segments without header) -> real LLMeshSerializer(allow_invalid_segments=..).serialize ->
    bytes or exception; the real bytes are split with the real BinaryLLSD reader into the rewritten header (key order,
    offset/size of every segment header, every other entry) and the body; both must equal write_layout's.
MP  a buffer = real binary LLSD of a generated header + a body assembled from real blobs, padding and junk, with a
    header table pointing exactly at blobs, at the same blob twice, short/long, past the end, before the body, with
    negative sizes -> real LLMeshSerializer(allow_invalid_segments=.., include_raw_segments=..).deserialize: exception or
    (segments, raw_segments); the model's parse_segments runs with the inflate oracle answered by the real code for exactly
    the (key, slice) pairs the model asks for (collected in a first driver pass).
(G) gen/C20_mesh.v: the KNOWN_SEGMENTS tuple of the live class equals the model's constant.
"""
from __future__ import annotations

import copy
import zlib

_LOGGING_OFF = False


def _quiet():
    global _LOGGING_OFF
    if not _LOGGING_OFF:
        import logging
        logging.disable(logging.CRITICAL)
        _LOGGING_OFF = True


def kx(name: str) -> str:
    return "k" + name.encode("utf8").hex()


class Ids:
    """opaque LLSD values <-> integers: a checksum of the repr, so that the numbers are the same in every run
    (a stored case can be replayed against its stored model observation)"""
    def get(self, v) -> int:
        return zlib.crc32(repr(v).encode("utf8")) % 100000007


def ordered_json(v):
    """dict order is part of a mesh header (and replay files are written with sorted keys): dicts as item lists"""
    if isinstance(v, dict):
        return {"$items": [[k, ordered_json(x)] for k, x in v.items()]}
    if isinstance(v, list):
        return [ordered_json(x) for x in v]
    return v


def from_ordered_json(v):
    if isinstance(v, dict) and set(v.keys()) == {"$items"}:
        return {k: from_ordered_json(x) for k, x in v["$items"]}
    if isinstance(v, list):
        return [from_ordered_json(x) for x in v]
    return v


def is_seg_header(v) -> bool:
    return isinstance(v, dict) and "offset" in v and "size" in v


def header_entries(hdr: dict, ids: Ids):
    out = []
    for k, v in hdr.items():
        if is_seg_header(v):
            extra = [(a, b) for a, b in v.items() if a not in ("offset", "size")]
            # the position of offset/size inside the dict is part of what must be preserved
            shape = [a if a in ("offset", "size") else None for a in v.keys()]
            out.append("%s:S:%d:%d:%d" % (kx(k), v["offset"], v["size"], ids.get((extra, shape))))
        else:
            out.append("%s:O:%d" % (kx(k), ids.get(v)))
    return out


def real_deflate(key, val) -> bytes:
    """the deflate oracle: what the real serializer does to a decoded segment (mesh.py lines after `else:`)"""
    from hippolyzer.lib.base.mesh import LLMeshSerializer
    from hippolyzer.lib.base.llsd import zip_llsd
    T = LLMeshSerializer.SEGMENT_TEMPLATES
    if key in T:
        if isinstance(val, (list, tuple)):
            val = [T[key].serialize(x) for x in val]
        else:
            val = T[key].serialize(val)
    return zip_llsd(val)


def real_inflate(key, blob: bytes):
    """the inflate oracle: ('o', value) | ('z',) | ('x', exc name)"""
    from hippolyzer.lib.base.mesh import LLMeshSerializer
    from hippolyzer.lib.base.llsd import unzip_llsd
    T = LLMeshSerializer.SEGMENT_TEMPLATES
    try:
        v = unzip_llsd(blob)
    except zlib.error:
        return ("z",)
    except Exception as e:
        return ("x", type(e).__name__)
    try:
        if key in T:
            if isinstance(v, (list, tuple)):
                v = [T[key].deserialize(x) for x in v]
            else:
                v = T[key].deserialize(v)
    except Exception as e:
        return ("x", type(e).__name__)
    return ("o", v)


# ----------------------------------------------------------------------------------------
# write direction

def split_written(out: bytes):
    import hippolyzer.lib.base.serialization as se
    r = se.BufferReader("!", out)
    hdr = r.read(se.BinaryLLSD)
    return hdr, out[r.tell():]


def impl_write(header, segments, raw_segments, allow):
    import hippolyzer.lib.base.serialization as se
    from hippolyzer.lib.base.mesh import LLMeshSerializer, MeshAsset
    _quiet()
    m = MeshAsset(header=copy.deepcopy(header), segments=dict(segments), raw_segments=dict(raw_segments))
    w = se.BufferWriter("!")
    try:
        w.write(LLMeshSerializer(allow_invalid_segments=allow), m)
    except Exception as e:
        return None, type(e).__name__
    if m.header != header:
        return None, "MUTATED-INPUT-HEADER"
    return w.copy_buffer(), None


_SIMPLE = [{"a": 1}, {"WeldingData": b"\x01\x02", "HullMassProps": {"mass": 1.5}}, [1, 2, 3], "text", 7, {"joint_names": ["mPelvis"]},
           {"k" * 40: "v" * 300}, [], {}]
_UNKNOWN = ["zzz_custom", "", "é", "Skin", "high_lod2", "a"]
_TEMPLATED = ("lowest_lod", "low_lod", "medium_lod", "high_lod", "physics_mesh", "physics_convex")


def lod_value(rng):
    """a decoded LOD segment the real template can serialise (from the real make_triangle)"""
    from hippolyzer.lib.base.mesh import MeshAsset
    tri = MeshAsset.make_triangle()
    return copy.deepcopy(tri.segments["high_lod"])


def convex_value(rng):
    from hippolyzer.lib.base.mesh import MeshAsset
    return copy.deepcopy(MeshAsset.make_triangle().segments["physics_convex"])


def seg_tree(spec):
    """('lod' | 'convex' | 'simple', index) -> a decoded segment"""
    t, i = spec
    if t == "lod":
        return lod_value(None)
    if t == "convex":
        return convex_value(None)
    return copy.deepcopy(_SIMPLE[i])


def materialize(segments):
    """JSON-able segment specs -> {name: ('P', tree) | ('B', bytes)}"""
    out = {}
    for n, (t, v) in segments.items():
        out[n] = ("P", seg_tree(v)) if t == "P" else ("B", bytes.fromhex(v))
    return out


def gen_write_case(rng, known):
    """-> header (ordered dict, JSON-able), segments {k: ['P', tree spec] | ['B', hex]}, raw {k: hex}"""
    header = {}
    names = [n for n in known if rng.random() < 0.55]
    names += [n for n in _UNKNOWN if rng.random() < 0.2]
    rng.shuffle(names)
    others = []
    if rng.random() < 0.9:
        others.append(("version", 1))
    if rng.random() < 0.4:
        others.append(("creator", "c0ffee"))
    if rng.random() < 0.3:
        others.append(("material_list", ["m0", "m1"]))
    if rng.random() < 0.3:
        others.append(("half_header", {"offset": 3}))           # no "size": not a segment header
    if rng.random() < 0.2:
        others.append(("size_only", {"size": 3, "x": 1}))
    entries = [(n, None) for n in names] + others
    rng.shuffle(entries)
    for n, v in entries:
        if v is not None:
            header[n] = v
            continue
        r = rng.random()
        off, size = rng.choice((0, 0, 5, 1000, -1)), rng.choice((0, 0, 7, 123456))
        if r < 0.7:
            header[n] = {"offset": off, "size": size}
        elif r < 0.85:
            header[n] = {"offset": off, "size": size, "version": 1}
        else:
            header[n] = {"version": 2, "size": size, "hash": "ab", "offset": off}
    segments, raw = {}, {}
    for n in names:
        r = rng.random()
        if r < 0.03:
            continue                                             # header without segment
        if n in _TEMPLATED:
            tree = ["convex", 0] if n == "physics_convex" else ["lod", 0]
        else:
            tree = ["simple", rng.randrange(len(_SIMPLE))]
        if r < 0.45:
            segments[n] = ["P", tree]
        elif r < 0.65:
            segments[n] = ["B", real_deflate(n, seg_tree(tree)).hex()]
        elif r < 0.72:
            segments[n] = ["B", rng.choice((b"", b"\x00" * 4, b"junk")).hex()]
        elif r < 0.9:
            raw[n] = real_deflate(n, seg_tree(tree)).hex()
        else:                                                    # both: segments wins
            segments[n] = ["P", tree]
            raw[n] = b"raw-loses".hex()
    if rng.random() < 0.04:
        segments["not_in_header"] = ["P", ["simple", 0]]
    if rng.random() < 0.04:
        raw["raw_not_in_header"] = b"x".hex()
    return header, segments, raw


def write_case_line(header, segments, raw, allow, ids: Ids):
    segs = []
    for k, (t, v) in materialize(segments).items():
        segs.append("%s:%s:%s" % (kx(k), t, (real_deflate(k, v) if t == "P" else v).hex()))
    raws = ["%s:%s" % (kx(k), v) for k, v in raw.items()]
    return "MW %d | %s | %s | %s" % (1 if allow else 0, " ".join(header_entries(header, ids)), " ".join(segs), " ".join(raws))


def write_observation(header, segments, raw, allow, ids: Ids):
    out, exc = impl_write(header, {k: v for k, (t, v) in materialize(segments).items()},
                          {k: bytes.fromhex(v) for k, v in raw.items()}, allow)
    if out is None:
        return "ERR", exc
    try:
        hdr, body = split_written(out)
    except Exception as e:
        return "SPLIT-EXC:" + type(e).__name__, None
    return "H %s | B %s" % (" ".join(header_entries(hdr, ids)), body.hex()), None


# ----------------------------------------------------------------------------------------
# parse direction

def impl_parse(buf: bytes, allow, incl):
    import hippolyzer.lib.base.serialization as se
    from hippolyzer.lib.base.mesh import LLMeshSerializer
    _quiet()
    try:
        m = se.BufferReader("!", buf).read(LLMeshSerializer(allow_invalid_segments=allow, include_raw_segments=incl))
    except Exception as e:
        return None, type(e).__name__
    return m, None


def gen_parse_case(rng, known):
    """-> header dict (with offsets), body bytes"""
    blobs = []
    body = bytearray()
    layout = []                     # (start, length, kind)
    for _ in range(rng.randrange(0, 6)):
        r = rng.random()
        if r < 0.65:
            b = real_deflate("skin", copy.deepcopy(rng.choice(_SIMPLE)))
            kind = "blob"
        elif r < 0.8:
            b = b"\x00" * rng.randrange(0, 6)
            kind = "zeros"
        else:
            b = bytes(rng.getrandbits(8) for _ in range(rng.randrange(1, 6)))
            kind = "junk"
        layout.append((len(body), len(b), kind))
        body += b
    if rng.random() < 0.1 and layout:
        # a blob that is valid zlib but not LLSD, and a LOD key pointing at a non-LOD tree (template raises)
        b = zlib.compress(b"not llsd")
        layout.append((len(body), len(b), "zlib-not-llsd"))
        body += b
    header = {}
    names = list(known) + _UNKNOWN
    rng.shuffle(names)
    if rng.random() < 0.8:
        header["version"] = 1
    tidy = rng.random() < 0.45          # a well-formed file: every entry points exactly at a real blob
    good = [x for x in layout if x[2] == "blob"]
    for n in names[:rng.randrange(0, 7)]:
        r = rng.random()
        if tidy and good:
            off, size = rng.choice(good)[:2]
        elif layout and r < 0.6:
            st, ln, _ = rng.choice(layout)
            d = rng.random()
            if d < 0.7:
                off, size = st, ln
            elif d < 0.8:
                off, size = st, ln + rng.choice((1, 3))
            elif d < 0.9:
                off, size = st, max(0, ln - 1)
            else:
                off, size = st + 1, ln
        elif r < 0.7:
            off, size = rng.choice((0, len(body), len(body) + 1)), rng.choice((0, 1, len(body), len(body) + 1))
        elif r < 0.8:
            off, size = -rng.randrange(1, 40), rng.randrange(0, 50)           # into (or before) the header
        elif r < 0.88:
            off, size = rng.randrange(0, len(body) + 3), -rng.randrange(1, 9)  # negative size
        elif r < 0.94:
            off, size = len(body) + rng.randrange(1, 20), -rng.randrange(1, 30)  # seek beyond the buffer
        else:
            off, size = rng.choice((2**31 - 1, -2**31, 0)), rng.choice((2**31 - 1, -2**31, 1))
        header[n] = {"offset": off, "size": size} if rng.random() < 0.8 else {"offset": off, "size": size, "version": 1}
        if rng.random() < 0.15:
            header["note_" + str(len(header))] = rng.choice((1, "x", {"offset": 1}))
    return header, bytes(body)


def parse_buffer(header, body):
    import hippolyzer.lib.base.llsd as llsd
    h = llsd.format_binary(header, with_header=False)
    return h + body, len(h)


# ----------------------------------------------------------------------------------------
# the suite

def live_known():
    from hippolyzer.lib.base.mesh import LLMeshSerializer
    return list(LLMeshSerializer.KNOWN_SEGMENTS)


def correspond(ctx, CorrResult):
    rng = ctx.rng
    known = live_known()
    res = CorrResult(suite="mesh container: real LLMeshSerializer.serialize/deserialize vs extracted write_layout/parse_segments",
                     rule="MW: generated MeshAssets (header keys = a random subset of KNOWN_SEGMENTS + unknown/empty/non-ASCII "
                          "names + non-segment entries incl. half segment headers, in random order; segment headers with stale "
                          "offsets and extra entries; segments as decoded values (real LOD/convex trees, plain LLSD), as bytes "
                          "(valid, empty, junk), in raw_segments, in both, missing, or without header; allow_invalid_segments "
                          "on/off) -> real serialize: exception or bytes split by the real BinaryLLSD reader into rewritten "
                          "header (order, offset/size, other entries) and body, against write_layout (deflate = the real "
                          "zip_llsd/template path). MP: real binary-LLSD header + body of real blobs/zero padding/junk with "
                          "tables pointing at, across, beyond and before the blobs, negative sizes/offsets, int32 extremes, "
                          "allow_invalid_segments and include_raw_segments on/off -> real deserialize: exception or segments + "
                          "raw_segments, against parse_segments with inflate answered by the real unzip_llsd/template path for "
                          "exactly the slices the model asks for. MS: sorted(keys, key=_segment_sort) on shuffled key lists. "
                          "non-trivial = distinct driver line")
    lines, want, cases = [], [], []
    ids = Ids()
    dist = {"MW": 0, "MW-err": 0, "MP": 0, "MP-err": 0, "MS": 0}
    # ---- write
    for i in range(ctx.pick(250, 5000)):
        header, segments, raw = gen_write_case(rng, known)
        allow = rng.random() < 0.25
        try:
            line = write_case_line(header, segments, raw, allow, ids)
            obs, exc = write_observation(header, segments, raw, allow, ids)
        except Exception as e:
            ctx.notes.append("mesh write generator case not expressible: %s" % type(e).__name__)
            continue
        lines.append(line)
        want.append(obs)
        cases.append({"kind": "mesh-layout", "allow": allow, "header": ordered_json(header), "segments": segments, "raw": raw, "exc": exc})
        dist["MW"] += 1
        dist["MW-err"] += obs == "ERR"
    # ---- sort
    for _ in range(ctx.pick(60, 1000)):
        ks = [n for n in known + _UNKNOWN if rng.random() < 0.6]
        rng.shuffle(ks)
        from hippolyzer.lib.base.mesh import LLMeshSerializer
        lines.append("MS " + " ".join(kx(k) for k in ks))
        want.append(" ".join(kx(k) for k in sorted(ks, key=LLMeshSerializer._segment_sort)))
        cases.append({"kind": "mesh-sort", "keys": ks})
        dist["MS"] += 1
    # ---- parse, pass 1: which slices would be inflated
    pcases = []
    for i in range(ctx.pick(350, 7000)):
        header, body = gen_parse_case(rng, known)
        allow, incl = rng.random() < 0.3, rng.random() < 0.5
        try:
            buf, hend = parse_buffer(header, body)
        except Exception as e:
            ctx.notes.append("mesh parse generator header not encodable: %s" % type(e).__name__)
            continue
        pcases.append((header, body, buf, hend, allow, incl))
    ids2 = Ids()
    collect = ["MC %d %d | %s | %s" % (1 if a else 0, hend, " ".join(header_entries(h, ids2)), buf.hex())
               for (h, body, buf, hend, a, incl) in pcases]
    asked = ctx.run_driver(collect) if collect else []
    for (header, body, buf, hend, allow, incl), ask in zip(pcases, asked):
        values = []
        table = []
        for q in ask.split():
            kh, bh = q.split(":")
            key = bytes.fromhex(kh[1:]).decode("utf8")
            r = real_inflate(key, bytes.fromhex(bh))
            if r[0] == "o":
                values.append(r[1])
                table.append("%s=o%d" % (q, len(values) - 1))
            else:
                table.append("%s=%s" % (q, r[0]))
        line = "MP %d %d %d | %s | %s | %s" % (1 if allow else 0, 1 if incl else 0, hend, " ".join(header_entries(header, ids2)),
                                              buf.hex(), " ".join(table))
        m, exc = impl_parse(buf, allow, incl)
        if m is None:
            obs = "ERR"
        else:
            # name every decoded segment by the oracle answer it equals (first match in request order per key)
            segs = []
            ok = True
            for k, v in m.segments.items():
                idx = None
                for q, t in zip(ask.split(), table):
                    if q.split(":")[0] == kx(k) and "=o" in t:
                        j = int(t.rsplit("=o", 1)[1])
                        if repr(values[j]) == repr(v):
                            idx = j
                if idx is None:
                    ok = False
                    segs.append("%s=UNEXPLAINED" % kx(k))
                else:
                    segs.append("%s=%d" % (kx(k), idx))
            if m.header != header:
                segs.append("HEADER-CHANGED")
            obs = "S %s | R %s" % (" ".join(segs), " ".join("%s=%s" % (kx(k), bytes(v).hex()) for k, v in m.raw_segments.items()))
        lines.append(line)
        want.append(obs)
        cases.append({"kind": "mesh-parse", "allow": allow, "incl": incl, "header": repr(header)[:600], "buffer": buf.hex(),
                      "header_end": hend, "line": line, "exc": exc})
        dist["MP"] += 1
        dist["MP-err"] += obs == "ERR"
    model = ctx.run_driver(lines) if lines else []
    for ln, ml, il, c in zip(lines, model, want, cases):
        m = " ".join(ml.split())
        i2 = " ".join(il.split())
        if c["kind"] == "mesh-parse" and m.startswith("S ") and i2.startswith("S "):
            # the same decoded value may have several indices (same slice asked twice): compare by value name
            pass
        if m != i2:
            d = dict(c)
            d.update({"model": m[:500], "impl": i2[:500], "class": "model-vs-code:" + c["kind"],
                      "clause": "extracted model and real code agree on this input", "model_line": m})
            res.disagreements.append(d)
    res.evaluations = len(lines) + len(collect)
    res.distinct_nontrivial = len(set(lines))
    res.distribution = dist
    res.samples = [{"line": lines[i][:160], "impl": want[i][:160]} for i in (0, len(lines) - 1) if lines]
    return res


def replay_case(case):
    """model-vs-code cases: the real observation against the model observation stored in the case"""
    kind = case.get("kind")
    if kind not in ("mesh-layout", "mesh-parse", "mesh-sort") or "model_line" not in case:
        return False, "no stored model observation"
    if kind == "mesh-sort":
        from hippolyzer.lib.base.mesh import LLMeshSerializer
        obs = " ".join(kx(k) for k in sorted(case["keys"], key=LLMeshSerializer._segment_sort))
        return obs != case["model_line"], {"impl": obs}
    if kind == "mesh-parse":
        m, exc = impl_parse(bytes.fromhex(case["buffer"]), case["allow"], case["incl"])
        if m is None:
            obs = "ERR"
        else:
            obs = "S ... R %s" % " ".join("%s=%s" % (kx(k), bytes(v).hex()) for k, v in m.raw_segments.items())
            ml = case["model_line"]
            if ml == "ERR":
                return True, {"impl": "accepted", "model": "ERR"}
            # compare the key sets and raw slices (the decoded values are named by per-run indices)
            mk = [w.split("=")[0] for w in ml.split(" | ")[0].split()[1:]]
            return (mk != [kx(k) for k in m.segments.keys()]) or (case["incl"] and ml.split(" | R")[1].strip() != obs.split(" R ")[1].strip()), \
                {"impl_keys": list(m.segments.keys()), "model": ml[:300]}
        return obs != case["model_line"], {"impl": obs, "model": case["model_line"][:300]}
    obs, _ = write_observation(from_ordered_json(case["header"]), case["segments"], case["raw"], case["allow"], Ids())
    obs = " ".join(obs.split())
    return obs != case["model_line"], {"impl": obs[:300], "model": case["model_line"][:300]}


# ----------------------------------------------------------------------------------------
# (G) the KNOWN_SEGMENTS constant

def emit(path):
    known = live_known()
    rows = ";\n  ".join("[" + "; ".join(str(b) for b in k.encode("utf8")) + "]" for k in known)
    src = """(* generated by harness/translate/c20_mesh.py from hippolyzer.lib.base.mesh.LLMeshSerializer.KNOWN_SEGMENTS - do not edit *)
From Coq Require Import NArith List.
From HV Require Import Asset.MeshLayout.
Import ListNotations.
Open Scope N_scope.

Definition live_known_segments : list key := [
  %s ].

(* the serialization order used by the model is the one of the live class *)
Lemma known_segments_live : known_segments = live_known_segments.
Proof. vm_compute. reflexivity. Qed.
""" % rows
    with open(path, "w") as f:
        f.write(src)
    return len(known)
