"""C20: tie between the Coq model of llanim (coq/theories/Asset/Anim.v) and the real hippolyzer.lib.base.llanim.

Raw level.  A generated animation VALUE is a plain dict of wire integers / 32-bit float patterns / UTF-8 byte strings
(the shape of the Coq record `anim`).  Two directions are compared:

  AP  bytes -> parse:   the real Animation.from_bytes against the extracted parse_anim on the same byte string (valid
      streams of both versions, every truncation of a stream, byte mutations, bad counts, unknown versions, invalid
      UTF-8, trailing bytes).  The real object is mapped back to raw numbers through the real code itself: floats by
      struct '<f', quantised numbers by the live quantiser objects found in the dataclass field specs.  Then the
      real to_bytes() of that object against the extracted write_anim of the model's value.
  AW  value -> bytes:   a real Animation built from a raw value (floats by struct, quantised numbers through the live
      decode()) is serialised by the real to_bytes(); bytes or exception against write_anim; the real
      from_bytes(to_bytes(a)) == a against the model's own round trip flag, and - the statement of the theorem at
      implementation level - wf_anim = true must imply that the real round trip holds.

The token language is the one of coq/ocaml/c20_driver.ml (show_anim / anim_of_tokens).
"""
from __future__ import annotations

import dataclasses
import math
import struct
import types

# ----------------------------------------------------------------------------------------
# live codec objects


class Live:
    """the quantiser objects the real spec tree uses, looked up from the live dataclasses on every run"""
    _inst = None

    def __init__(self):
        import hippolyzer.lib.base.llanim as la
        import hippolyzer.lib.base.serialization as se
        self.la, self.se = la, se

        def spec_of(cls, name):
            for f in dataclasses.fields(cls):
                if f.name == name:
                    s = f.metadata["spec"]
                    if isinstance(s, se.ForwardSerializable):
                        s._ensure_evaled()
                        s = s._wrapped
                    return s
            raise KeyError(name)
        t = spec_of(la.RotKeyframe, "time")
        self.time_q = t._options[(1, 0)]                 # QuantizedTime(U16)
        rot = spec_of(la.RotKeyframe, "rot")._options[(1, 0)]._child_spec      # Vector3U16(-1, 1)
        pos = spec_of(la.PosKeyframe, "pos")._options[(1, 0)]                  # Vector3U16(-5, 5)
        self.rot_q = tuple(rot._elem_specs)
        self.pos_q = tuple(pos._elem_specs)
        if len(self.rot_q) != 3 or len(self.pos_q) != 3:
            raise RuntimeError("unexpected keyframe component specs")

    @classmethod
    def get(cls):
        if cls._inst is None:
            cls._inst = cls()
        return cls._inst


def f32_raw(x: float) -> int:
    return struct.unpack("<I", struct.pack("<f", x))[0]


def f32_val(raw: int) -> float:
    return struct.unpack("<f", struct.pack("<I", raw))[0]


def is_nan_raw(raw: int) -> bool:
    return (raw & 0x7f800000) == 0x7f800000 and (raw & 0x007fffff) != 0


def good_duration(raw: int) -> bool:
    """finite and > 0: the range in which QuantizedTime is a bit-exact inverse pair (C10)"""
    v = f32_val(raw)
    return (not math.isnan(v)) and (not math.isinf(v)) and v > 0.0


def _ctx(duration):
    return types.SimpleNamespace(_root=types.SimpleNamespace(duration=duration))


# ----------------------------------------------------------------------------------------
# tokens

def tok_f(raw):
    return "f%08x" % raw


def tok_h(b: bytes):
    return "h" + b.hex()


def tokens_of_value(v) -> str:
    """raw value dict -> driver tokens"""
    w4 = (v["major"], v["minor"]) == (0, 1)
    out = [str(v["major"]), str(v["minor"]), str(v["base_prio"]), tok_f(v["duration"]), tok_h(v["emote"]),
           tok_f(v["loop_in"]), tok_f(v["loop_out"]), str(v["loop"]), tok_f(v["ease_in"]), tok_f(v["ease_out"]),
           str(v["hand_pose"]), "J%d" % len(v["joints"])]

    def key(k):
        if w4:
            return ["tf%08x" % k[0], tok_f(k[1]), tok_f(k[2]), tok_f(k[3])]
        return ["t%d" % k[0], "q%d" % k[1], "q%d" % k[2], "q%d" % k[3]]
    for j in v["joints"]:
        out += [tok_h(j["name"]), str(j["prio"]), "R%d" % len(j["rot"])]
        for k in j["rot"]:
            out += key(k)
        out.append("P%d" % len(j["pos"]))
        for k in j["pos"]:
            out += key(k)
    out.append("C%d" % len(v["constraints"]))
    for c in v["constraints"]:
        out += [str(c["chain"]), str(c["type"]), tok_h(c["src_vol"])] + [tok_f(x) for x in c["src_off"]]
        out += [tok_h(c["tgt_vol"])] + [tok_f(x) for x in c["tgt_off"]] + [tok_f(x) for x in c["tgt_dir"]]
        out += [tok_f(x) for x in c["ease"]]
    return " ".join(out)


def tokens_of_real(a) -> str:
    """real Animation -> driver tokens, through the real quantisers / struct"""
    L = Live.get()
    ver = (int(a.major_version), int(a.minor_version))
    w4 = ver == (0, 1)
    out = [str(int(a.major_version)), str(int(a.minor_version)), str(int(a.base_priority)), tok_f(f32_raw(a.duration)),
           tok_h(a.emote_name.encode("utf8")), tok_f(f32_raw(a.loop_in_point)), tok_f(f32_raw(a.loop_out_point)),
           str(int(a.loop)), tok_f(f32_raw(a.ease_in_duration)), tok_f(f32_raw(a.ease_out_duration)), str(int(a.hand_pose))]
    joints = list(a.joints.items(multi=True))
    out.append("J%d" % len(joints))
    ctx = _ctx(a.duration)
    time_ok = good_duration(f32_raw(a.duration))

    def key(t, comps, qs):
        if w4:
            return ["tf%08x" % f32_raw(t)] + [tok_f(f32_raw(c)) for c in comps]
        # outside (0, inf) the time grid is not invertible (C10's excluded domain): not compared
        return ["t%d" % L.time_q.encode(t, ctx) if time_ok else "t?"] + ["q%d" % q.encode(c, None) for q, c in zip(qs, comps)]
    for name, j in joints:
        out += [tok_h(name.encode("utf8")), str(int(j.priority)), "R%d" % len(j.rot_keyframes)]
        for k in j.rot_keyframes:
            out += key(k.time, (k.rot.X, k.rot.Y, k.rot.Z), L.rot_q)
        out.append("P%d" % len(j.pos_keyframes))
        for k in j.pos_keyframes:
            out += key(k.time, (k.pos.X, k.pos.Y, k.pos.Z), L.pos_q)
    out.append("C%d" % len(a.constraints))
    for c in a.constraints:
        out += [str(int(c.chain_length)), str(int(c.type)), tok_h(c.source_volume.encode("utf8"))]
        out += [tok_f(f32_raw(x)) for x in (c.source_offset.X, c.source_offset.Y, c.source_offset.Z)]
        out += [tok_h(c.target_volume.encode("utf8"))]
        out += [tok_f(f32_raw(x)) for x in (c.target_offset.X, c.target_offset.Y, c.target_offset.Z)]
        out += [tok_f(f32_raw(x)) for x in (c.target_dir.X, c.target_dir.Y, c.target_dir.Z)]
        out += [tok_f(f32_raw(x)) for x in (c.ease_in_start, c.ease_in_stop, c.ease_out_start, c.ease_out_stop)]
    return " ".join(out)


def canon_tokens(s: str, mask_time: bool) -> str:
    """NaN payloads: CPython's float<->double conversion sets the quiet bit of a signalling NaN (C02's business);
    canonicalise f-tokens accordingly.  mask_time: the version-1.0 time grid is not invertible for this duration
    (0, negative, inf, NaN: C10's domain), compare everything but the quantised times."""
    out = []
    for t in s.split():
        if t.startswith("tf") or (t.startswith("f") and len(t) == 9):
            pre = "tf" if t.startswith("tf") else "f"
            raw = int(t[len(pre):], 16)
            if is_nan_raw(raw):
                raw |= 0x00400000
            t = "%s%08x" % (pre, raw)
        elif mask_time and t.startswith("t"):
            t = "t?"
        out.append(t)
    return " ".join(out)


def has_snan(s: str) -> bool:
    for t in s.split():
        if t.startswith("tf") or (t.startswith("f") and len(t) == 9):
            raw = int(t[2:] if t.startswith("tf") else t[1:], 16)
            if is_nan_raw(raw) and not raw & 0x00400000:
                return True
    return False


# ----------------------------------------------------------------------------------------
# raw value -> real Animation

def real_of_value(v):
    L = Live.get()
    la = L.la
    from hippolyzer.lib.base.datatypes import Vector3, Quaternion
    from hippolyzer.lib.base.multidict import OrderedMultiDict
    ver = (v["major"], v["minor"])
    dur = f32_val(v["duration"])
    ctx = _ctx(dur)

    def kf(cls, attr, mk, qs, k):
        if ver == (0, 1):
            return cls(time=f32_val(k[0]), **{attr: mk(*[f32_val(c) for c in k[1:]])})
        return cls(time=L.time_q.decode(k[0], ctx), **{attr: mk(*[q.decode(c, None) for q, c in zip(qs, k[1:])])})
    joints = []
    for j in v["joints"]:
        joints.append((j["name"].decode("utf8"), la.Joint(
            priority=j["prio"],
            rot_keyframes=[kf(la.RotKeyframe, "rot", Quaternion, L.rot_q, k) for k in j["rot"]],
            pos_keyframes=[kf(la.PosKeyframe, "pos", Vector3, L.pos_q, k) for k in j["pos"]])))
    cons = []
    for c in v["constraints"]:
        e = [f32_val(x) for x in c["ease"]]
        cons.append(la.Constraint(
            chain_length=c["chain"], type=c["type"], source_volume=c["src_vol"].decode("utf8"),
            source_offset=Vector3(*[f32_val(x) for x in c["src_off"]]), target_volume=c["tgt_vol"].decode("utf8"),
            target_offset=Vector3(*[f32_val(x) for x in c["tgt_off"]]), target_dir=Vector3(*[f32_val(x) for x in c["tgt_dir"]]),
            ease_in_start=e[0], ease_in_stop=e[1], ease_out_start=e[2], ease_out_stop=e[3]))
    return la.Animation(major_version=v["major"], minor_version=v["minor"], base_priority=v["base_prio"], duration=dur,
                        emote_name=v["emote"].decode("utf8"), loop_in_point=f32_val(v["loop_in"]),
                        loop_out_point=f32_val(v["loop_out"]), loop=v["loop"], ease_in_duration=f32_val(v["ease_in"]),
                        ease_out_duration=f32_val(v["ease_out"]), hand_pose=v["hand_pose"],
                        joints=OrderedMultiDict(joints), constraints=cons)


# ----------------------------------------------------------------------------------------
# an independent little encoder (generator side only): raw value -> byte string, no checks

def encode_value(v, *, counts=None) -> bytes:
    w4 = (v["major"], v["minor"]) == (0, 1)
    U = lambda fmt, x: struct.pack(fmt, x)
    b = bytearray()
    b += U("<H", v["major"] & 0xffff) + U("<H", v["minor"] & 0xffff) + U("<i", v["base_prio"]) + U("<I", v["duration"])
    b += v["emote"] + b"\0"
    b += U("<I", v["loop_in"]) + U("<I", v["loop_out"]) + U("<i", v["loop"]) + U("<I", v["ease_in"]) + U("<I", v["ease_out"])
    b += U("<I", v["hand_pose"]) + U("<I", len(v["joints"]))

    def key(k):
        return b"".join(U("<I" if w4 else "<H", x) for x in k)
    for j in v["joints"]:
        b += j["name"] + b"\0" + U("<i", j["prio"])
        b += U("<i", len(j["rot"])) + b"".join(key(k) for k in j["rot"])
        b += U("<i", len(j["pos"])) + b"".join(key(k) for k in j["pos"])
    b += U("<i", len(v["constraints"]))
    for c in v["constraints"]:
        b += bytes([c["chain"], c["type"]])
        b += c["src_vol"].ljust(16, b"\0") + b"".join(U("<I", x) for x in c["src_off"])
        b += c["tgt_vol"].ljust(16, b"\0") + b"".join(U("<I", x) for x in c["tgt_off"])
        b += b"".join(U("<I", x) for x in c["tgt_dir"]) + b"".join(U("<I", x) for x in c["ease"])
    return bytes(b)


# ----------------------------------------------------------------------------------------
# generators (rng = ctx.rng only)

_NAMES = [b"mPelvis", b"mNeck", b"mHead", b"", b"a", "é".encode(), "中".encode(), "\U0001F600".encode(), b"m Torso_01",
          b"x" * 15, b"x" * 16, b"x" * 17, "é".encode() * 8, b"x" * 15 + "é".encode(), b"x" * 14 + "中".encode(),
          b"x" * 13 + "\U0001F600".encode(), "߿ࠀ￿".encode(), "퟿".encode(), "\U00010000\U0010ffff".encode()]


def gen_str(rng, fixed=False):
    r = rng.random()
    if r < 0.7:
        s = rng.choice(_NAMES)
    else:
        s = "".join(rng.choice("abcmPelvisNeck_ 01é中\U0001F600") for _ in range(rng.randrange(0, 12))).encode("utf8")
    if fixed and len(s) > 16:
        # keep whole characters
        s = s.decode("utf8")
        while len(s.encode("utf8")) > 16:
            s = s[:-1]
        s = s.encode("utf8")
    return s


def gen_f32(rng, positive=False):
    while True:
        r = rng.random()
        if r < 0.5:
            v = rng.choice((0.0, 1.0, 0.5, 2.0, 1.6333398818969727, 0.1, 30.0, 1e-40, 3.0e38))
            if not positive and rng.random() < 0.5:
                v = -v
            raw = f32_raw(v)
        else:
            raw = rng.getrandbits(32)
        if is_nan_raw(raw):
            continue
        if positive and not good_duration(raw):
            continue
        return raw


def gen_u16(rng):
    return rng.choice((0, 1, 0x7fff, 0x8000, 0xffff, 0xfffe, rng.getrandbits(16)))


def gen_s32(rng):
    return rng.choice((0, 1, 4, -1, 6, 2147483647, -2147483648, rng.randrange(-2**31, 2**31)))


def gen_value(rng, version=None, size="small"):
    if version is None:
        version = rng.choice(((1, 0), (0, 1)))
    w4 = version == (0, 1)
    big = size == "big"

    def key():
        if w4:
            return [gen_f32(rng) for _ in range(4)]
        return [gen_u16(rng) for _ in range(4)]

    def keys():
        return [key() for _ in range(rng.choice((0, 0, 1, 2, 3, 9 if big else 2)))]
    v = {"major": version[0], "minor": version[1], "base_prio": gen_s32(rng), "duration": gen_f32(rng, positive=True),
         "emote": gen_str(rng), "loop_in": gen_f32(rng), "loop_out": gen_f32(rng), "loop": rng.choice((0, 1, -1, gen_s32(rng))),
         "ease_in": gen_f32(rng), "ease_out": gen_f32(rng),
         "hand_pose": rng.choice((0, 1, 13, 14, 0xffffffff, rng.randrange(0, 14))),
         "joints": [], "constraints": []}
    for _ in range(rng.choice((0, 1, 1, 2, 3, 12 if big else 2))):
        v["joints"].append({"name": gen_str(rng) if rng.random() < 0.8 else b"mNeck", "prio": gen_s32(rng),
                            "rot": keys(), "pos": keys()})
    for _ in range(rng.choice((0, 0, 1, 2, 5 if big else 1))):
        v["constraints"].append({"chain": rng.choice((0, 1, 255, rng.randrange(256))), "type": rng.choice((0, 1, 2, 255)),
                                 "src_vol": gen_str(rng, fixed=True), "src_off": [gen_f32(rng) for _ in range(3)],
                                 "tgt_vol": gen_str(rng, fixed=True), "tgt_off": [gen_f32(rng) for _ in range(3)],
                                 "tgt_dir": [gen_f32(rng) for _ in range(3)], "ease": [gen_f32(rng) for _ in range(4)]})
    # names with NUL inside cannot be encoded for the parser direction; strip them here
    v["emote"] = v["emote"].replace(b"\0", b"")
    for j in v["joints"]:
        j["name"] = j["name"].replace(b"\0", b"")
    return v


def perturb_value(rng, v):
    """push a valid value to (or across) the edge of the round-trip domain; returns a label"""
    import copy
    v = copy.deepcopy(v)
    kinds = ["nul-in-emote", "prio-range", "version", "hand-pose-range", "dur-zero"]
    if v["joints"]:
        kinds += ["nul-in-name", "nul-at-name-end", "joint-prio-range", "key-range", "add-key-unknown-version"]
    if v["constraints"]:
        kinds += ["fixed-17", "fixed-trailing-nul", "fixed-inner-nul", "fixed-16", "chain-256", "type-256", "fixed-only-nul"]
    kind = rng.choice(kinds)
    if kind == "nul-in-emote":
        v["emote"] = b"ab\0cd"
    elif kind == "prio-range":
        v["base_prio"] = rng.choice((2**31, -2**31 - 1, 2**31 - 1, -2**31))
    elif kind == "version":
        v["major"], v["minor"] = rng.choice(((0, 0), (1, 1), (2, 5), (0, 2), (65535, 0), (65536, 0), (1, 65536)))
        if rng.random() < 0.5:
            for j in v["joints"]:
                j["rot"], j["pos"] = [], []
    elif kind == "hand-pose-range":
        v["hand_pose"] = rng.choice((2**32, 2**32 - 1, 2**33))
    elif kind == "dur-zero":
        v["duration"] = rng.choice((0, 0x80000000))
        for j in v["joints"]:                       # only the grid point 0 exists for duration 0
            for k in j["rot"] + j["pos"]:
                if (v["major"], v["minor"]) == (1, 0):
                    k[0] = 0
    elif kind == "nul-in-name":
        rng.choice(v["joints"])["name"] = b"a\0b"
    elif kind == "nul-at-name-end":
        rng.choice(v["joints"])["name"] = b"ab\0"
    elif kind == "joint-prio-range":
        rng.choice(v["joints"])["prio"] = rng.choice((2**31, -2**31 - 1))
    elif kind == "key-range":
        j = rng.choice(v["joints"])
        w4 = (v["major"], v["minor"]) == (0, 1)
        j["rot"].append([0, 0, 0, 0] if w4 else [rng.choice((65535, 0)), 65535, 0, 65535])
    elif kind == "add-key-unknown-version":
        v["major"], v["minor"] = 2, 0
        rng.choice(v["joints"])["pos"].append([0, 0, 0, 0])
    elif kind == "fixed-17":
        rng.choice(v["constraints"])[rng.choice(("src_vol", "tgt_vol"))] = rng.choice((b"x" * 17, "é".encode() * 9, b"y" * 40))
    elif kind == "fixed-trailing-nul":
        rng.choice(v["constraints"])[rng.choice(("src_vol", "tgt_vol"))] = rng.choice((b"abc\0", b"abc\0\0", b"x" * 15 + b"\0"))
    elif kind == "fixed-only-nul":
        rng.choice(v["constraints"])[rng.choice(("src_vol", "tgt_vol"))] = rng.choice((b"\0", b"\0" * 16))
    elif kind == "fixed-inner-nul":
        rng.choice(v["constraints"])[rng.choice(("src_vol", "tgt_vol"))] = b"ab\0cd"
    elif kind == "fixed-16":
        rng.choice(v["constraints"])[rng.choice(("src_vol", "tgt_vol"))] = rng.choice((b"x" * 16, "é".encode() * 8))
    elif kind == "chain-256":
        rng.choice(v["constraints"])["chain"] = rng.choice((256, 255, 1000))
    elif kind == "type-256":
        rng.choice(v["constraints"])["type"] = 256
    return kind, v


_BAD_UTF8 = [b"\x80", b"\xc0\x80", b"\xc1\xbf", b"\xc2", b"\xe0\x80\x80", b"\xe0\x9f\xbf", b"\xed\xa0\x80", b"\xed\xbf\xbf",
             b"\xf0\x80\x80\x80", b"\xf0\x8f\xbf\xbf", b"\xf4\x90\x80\x80", b"\xf5\x80\x80\x80", b"\xff", b"\xe2\x82", b"\xf0\x9f\x98",
             b"a\xc3", b"\xc3\xa9\xa9", b"\xef\xbf\xbe", b"\xf4\x8f\xbf\xbf", b"\xee\x80\x80", b"\xc2\x80", b"\xdf\xbf"]


def gen_utf8_probe(rng):
    r = rng.random()
    if r < 0.35:
        return rng.choice(_BAD_UTF8)
    if r < 0.5:
        return rng.choice(_BAD_UTF8) + rng.choice(_NAMES)
    if r < 0.6:
        return rng.choice(_NAMES) + rng.choice(_BAD_UTF8)
    if r < 0.8:
        # boundary lead/continuation bytes
        lead = rng.choice((0x7f, 0x80, 0xbf, 0xc0, 0xc1, 0xc2, 0xdf, 0xe0, 0xe1, 0xec, 0xed, 0xee, 0xef, 0xf0, 0xf1, 0xf3, 0xf4, 0xf5, 0xff))
        tail = bytes(rng.choice((0x7f, 0x80, 0x8f, 0x90, 0x9f, 0xa0, 0xbf, 0xc0)) for _ in range(rng.randrange(0, 4)))
        return bytes([lead]) + tail
    return bytes(rng.getrandbits(8) | (0x80 if rng.random() < 0.5 else 0) for _ in range(rng.randrange(1, 6)))


def mutate_bytes(rng, raw: bytes):
    """returns (label, bytes)"""
    r = rng.random()
    b = bytearray(raw)
    if r < 0.3 and b:
        i = rng.randrange(len(b))
        b[i] = rng.choice((0, 1, 0x7f, 0x80, 0xff, rng.getrandbits(8)))
        return "byte", bytes(b)
    if r < 0.45 and b:
        i = rng.randrange(len(b))
        del b[i]
        return "delete", bytes(b)
    if r < 0.6:
        i = rng.randrange(len(b) + 1)
        b[i:i] = bytes([rng.choice((0, 0xff, 0x41, rng.getrandbits(8)))])
        return "insert", bytes(b)
    if r < 0.75:
        return "trailing", raw + bytes(rng.getrandbits(8) for _ in range(rng.randrange(1, 5)))
    if r < 0.9 and len(b) >= 4:
        # overwrite an aligned-ish 4-byte window with an extreme count
        i = rng.randrange(len(b) - 3)
        b[i:i + 4] = struct.pack("<i", rng.choice((-1, -2**31, 2**31 - 1, 0x01000000, 65536, 7)))
        return "count", bytes(b)
    return "truncate", raw[:rng.randrange(len(raw) + 1)]


# ----------------------------------------------------------------------------------------
# observations of the real code

def impl_parse(raw: bytes):
    """-> ("OK", tokens, written_hex_or_EXC, consumed?) or ("ERR", exc name)"""
    from hippolyzer.lib.base.llanim import Animation
    try:
        a = Animation.from_bytes(raw)
    except Exception as e:
        return ("ERR", type(e).__name__)
    try:
        toks = tokens_of_real(a)
    except Exception as e:
        return ("RENDER-EXC", type(e).__name__)
    try:
        w = a.to_bytes().hex()
    except Exception as e:
        w = "EXC:" + type(e).__name__
    return ("OK", toks, w, a)


def impl_write(v):
    """-> (written hex | None, exc name | None, roundtrip_equal: bool | None)"""
    from hippolyzer.lib.base.llanim import Animation
    a = real_of_value(v)
    try:
        w = a.to_bytes()
    except Exception as e:
        return None, type(e).__name__, None
    try:
        back = Animation.from_bytes(w)
        rt = back == a
    except Exception:
        rt = False
    return w.hex(), None, rt


# ----------------------------------------------------------------------------------------
# the correspondence suite

def value_to_json(v):
    import copy
    v = copy.deepcopy(v)
    v["emote"] = v["emote"].hex()
    for j in v["joints"]:
        j["name"] = j["name"].hex()
    for c in v["constraints"]:
        c["src_vol"], c["tgt_vol"] = c["src_vol"].hex(), c["tgt_vol"].hex()
    return v


def value_from_json(v):
    import copy
    v = copy.deepcopy(v)
    v["emote"] = bytes.fromhex(v["emote"])
    for j in v["joints"]:
        j["name"] = bytes.fromhex(j["name"])
    for c in v["constraints"]:
        c["src_vol"], c["tgt_vol"] = bytes.fromhex(c["src_vol"]), bytes.fromhex(c["tgt_vol"])
    return v


def _soft_time(tokens: str) -> bool:
    """version 1.0 with a duration outside (0, inf): the time grid is C10's excluded domain"""
    t = tokens.split()
    if len(t) < 4 or (t[0], t[1]) != ("1", "0"):
        return False
    return not good_duration(int(t[3][1:], 16))


def parse_observation(raw: bytes):
    """structured observation of the real parser for an AP case: ("ERR", exc) | ("OK", tokens, rest, written)"""
    import hippolyzer.lib.base.serialization as se
    from hippolyzer.lib.base.llanim import Animation
    r = impl_parse(raw)
    if r[0] == "ERR":
        return ("ERR", r[1])
    if r[0] != "OK":
        return ("RENDER-EXC:" + r[1], None)
    toks, w = r[1], r[2]
    try:
        reader = se.BufferReader("<", raw)
        reader.read(se.Dataclass(Animation))
        rest = str(len(reader))
    except Exception as e:
        rest = "EXC:" + type(e).__name__
    return ("OK", toks, rest, w if not w.startswith("EXC") else "ERR")


def parse_lines(ml: str, obs):
    """(normalised model line, normalised impl line, wf flag of the model).  Whether quantised times / written bytes
    are comparable is decided from the MODEL's tokens (they are the raw input): version 1.0 with a duration outside
    (0, inf), or a signalling NaN anywhere (CPython quiets it: C02)."""
    ml = ml.strip()
    impl = obs[0] if obs[0] != "OK" else None
    if not ml.startswith("OK "):
        if impl is None:
            impl = "OK %s # rest=%s W=%s" % (obs[1], obs[2], obs[3])
        return ml, impl, None
    body, tail = ml[3:].split(" # ", 1)
    parts = dict(p.split("=", 1) for p in tail.split())
    mask = _soft_time(body)
    soft = mask or has_snan(body)
    mline = "OK %s # rest=%s W=%s" % (canon_tokens(body, mask), parts["rest"], "?" if soft else parts["W"])
    if impl is None:
        impl = "OK %s # rest=%s W=%s" % (canon_tokens(obs[1], mask), obs[2], "?" if soft else obs[3])
    return mline, impl, parts["wf"]


def write_observation(v):
    w, exc, rt = impl_write(v)
    if w is None:
        return "W=ERR rt=false", exc, None
    return "W=%s rt=%s" % (w, "true" if rt else "false"), None, rt


def normalise_model_write(ml: str):
    parts = dict(p.split("=", 1) for p in ml.strip().split())
    return "W=%s rt=%s" % (parts["W"], parts["rt"]), parts["wf"]


def header_bytes(version=(1, 0), dur=1.0, emote=b""):
    return struct.pack("<HHif", version[0], version[1], 3, dur) + emote + b"\0" + struct.pack("<ffiffI", 0.0, 1.0, 1, 0.5, 0.5, 1)


def explicit_streams():
    """hand-picked byte strings around the parser's special cases"""
    out = []
    h = header_bytes()
    i32 = lambda x: struct.pack("<i", x)
    u32 = lambda x: struct.pack("<I", x)
    key10 = struct.pack("<HHHH", 1, 2, 3, 4)
    key01 = struct.pack("<ffff", 0.5, 0.1, 0.2, 0.3)
    out.append(("empty", h + u32(0) + i32(0)))
    out.append(("neg-constraints", h + u32(0) + i32(-1)))
    out.append(("min-constraints", h + u32(0) + i32(-2**31)))
    out.append(("huge-constraints", h + u32(0) + i32(2**31 - 1)))
    out.append(("huge-joints", h + u32(0xffffffff) + i32(0)))
    out.append(("joints-beyond", h + u32(2) + b"a\0" + i32(0) + i32(0) + i32(0)))
    out.append(("neg-keys", h + u32(1) + b"a\0" + i32(1) + i32(-1) + i32(-7) + i32(0)))
    out.append(("keys-beyond", h + u32(1) + b"a\0" + i32(1) + i32(3) + key10 * 2))
    out.append(("keys-exact", h + u32(1) + b"a\0" + i32(1) + i32(2) + key10 * 2 + i32(1) + key10 + i32(0)))
    out.append(("dup-names", h + u32(3) + (b"A\0" + i32(1) + i32(1) + key10 + i32(0)) + (b"B\0" + i32(2) + i32(0) + i32(0))
                + (b"A\0" + i32(3) + i32(0) + i32(1) + key10) + i32(0)))
    for ver in ((0, 1), (1, 0), (0, 0), (1, 1), (2, 5), (0, 2), (65535, 65535)):
        hv = header_bytes(ver)
        k = key01 if ver == (0, 1) else key10
        out.append(("ver%d.%d-nokeys" % ver, hv + u32(1) + b"a\0" + i32(1) + i32(0) + i32(0) + i32(0)))
        out.append(("ver%d.%d-rot" % ver, hv + u32(1) + b"a\0" + i32(1) + i32(1) + k + i32(0) + i32(0)))
        out.append(("ver%d.%d-pos" % ver, hv + u32(1) + b"a\0" + i32(1) + i32(0) + i32(1) + k + i32(0)))
    for dur in (0.0, -0.0, -1.0, float("inf"), float("nan")):
        out.append(("dur-%r" % dur, header_bytes((1, 0), dur) + u32(1) + b"a\0" + i32(1) + i32(1) + key10 + i32(0) + i32(0)))
    con = lambda sv, tv: bytes([3, 1]) + sv + struct.pack("<fff", 1, 2, 3) + tv + struct.pack("<fff", 4, 5, 6) + struct.pack("<fff", 7, 8, 9) + struct.pack("<ffff", 1, 2, 3, 4)
    fx = [b"\0" * 16, b"x" * 16, b"abc" + b"\0" * 13, b"ab\0cd" + b"\0" * 11, b"\0ab" + b"\0" * 13, b"x" * 15 + b"\0", b"x" * 15 + b"\xc3",
          "é".encode() * 8, b"x" * 14 + b"\xe4\xb8", b"\xff" + b"\0" * 15, b"\0" * 15 + b"a"]
    for i, sv in enumerate(fx):
        out.append(("fixed-%d" % i, h + u32(0) + i32(1) + con(sv, fx[(i + 3) % len(fx)])))
    out.append(("two-constraints", h + u32(0) + i32(2) + con(fx[1], fx[2]) * 2))
    out.append(("constraint-short", h + u32(0) + i32(1) + con(fx[1], fx[2])[:-1]))
    out.append(("emote-eof", struct.pack("<HHif", 1, 0, 3, 1.0) + b"abc"))
    out.append(("emote-bad-utf8", header_bytes(emote=b"\xc3")))
    out.append(("name-eof", h + u32(1) + b"abc"))
    return out


def correspond(ctx, CorrResult):
    rng = ctx.rng
    res = CorrResult(suite="animation: real llanim.Animation from_bytes/to_bytes vs extracted parse_anim/write_anim (raw level)",
                     rule="AP: byte strings -> real Animation.from_bytes and extracted parse_anim must accept/reject alike and, when "
                          "accepted, agree on every field mapped back to raw (floats via struct '<f', quantised numbers via the live "
                          "quantiser objects of the dataclass specs), on the number of unread bytes, and on the re-serialisation "
                          "(real to_bytes vs write_anim); inputs: generated streams of versions 1.0 and 0.1 (0..12 joints, 0..9 keys, "
                          "0..5 constraints, boundary strings incl. multi-byte UTF-8 at the 16-byte limit), every truncation of some of "
                          "them, byte mutations (overwrite/delete/insert/trailing/extreme 4-byte windows), hand-picked streams (negative "
                          "and oversized counts, unknown versions with and without keyframes, durations outside (0,inf), missing "
                          "terminator at EOF), invalid UTF-8 in names, plus the UTF-8 validator alone against bytes.decode. AW: raw "
                          "values inside and at the edge of the round-trip domain (NUL inside names, fixed strings of 16/17 bytes or "
                          "ending in NUL, integers out of range, unknown version) -> real Animation objects -> real to_bytes() (bytes or "
                          "exception) vs write_anim, real from_bytes(to_bytes(a)) == a vs the model's own round-trip flag; wf_anim = true "
                          "must imply the real round trip. Quantised times are compared only for durations in (0,inf) (C10's domain), "
                          "signalling-NaN payloads are canonicalised (C02). non-trivial = distinct driver line")
    lines, want, cases = [], [], []
    dist = {}

    def add_ap(label, raw):
        obs = parse_observation(raw)
        lines.append("AP " + raw.hex())
        want.append(obs)
        cases.append({"kind": "anim-parse", "label": label, "bytes": raw.hex(), "exc": obs[1] if obs[0] == "ERR" else None})
        dist["AP:" + label.split("-")[0].split(":")[0]] = dist.get("AP:" + label.split("-")[0].split(":")[0], 0) + 1

    def add_aw(label, v):
        try:
            obs, exc, rt = write_observation(v)
        except Exception as e:
            obs, exc, rt = "ADAPTER-EXC:" + type(e).__name__, None, None
        lines.append("AW " + tokens_of_value(v))
        want.append(obs)
        cases.append({"kind": "anim-write", "label": label, "value": value_to_json(v), "exc": exc, "rt": rt})
        dist["AW:" + label] = dist.get("AW:" + label, 0) + 1

    try:
        from tests.base.test_serialization import AnimSerializationTests
        add_ap("fixture", AnimSerializationTests.SIMPLE_ANIM)
    except Exception:
        ctx.notes.append("animation test fixture not importable")
    for label, raw in explicit_streams():
        add_ap("explicit:" + label, raw)
    n_val = ctx.pick(140, 3000)
    n_trunc = ctx.pick(6, 60)
    for i in range(n_val):
        v = gen_value(rng, size="big" if i % 25 == 24 else "small")
        raw = encode_value(v)
        add_ap("valid", raw)
        add_aw("valid", v)
        if i < n_trunc and len(raw) < 400:
            for cut in range(len(raw)):
                add_ap("truncation", raw[:cut])
        for _ in range(3):
            lab, m = mutate_bytes(rng, raw)
            add_ap("mutated-" + lab, m)
        if rng.random() < 0.5:
            # invalid / boundary UTF-8 inside a name (encoded raw; a NUL in the probe just ends the name earlier)
            v2 = dict(v)
            probe = gen_utf8_probe(rng)
            if v2["joints"] and rng.random() < 0.6:
                js = [dict(j) for j in v2["joints"]]
                js[rng.randrange(len(js))]["name"] = probe
                v2["joints"] = js
            else:
                v2["emote"] = probe
            add_ap("utf8", encode_value(v2))
        for _ in range(2):
            lab, pv = perturb_value(rng, v)
            add_aw(lab, pv)
    n_u8 = ctx.pick(400, 8000)
    for _ in range(n_u8):
        p = gen_utf8_probe(rng) if rng.random() < 0.8 else rng.choice(_NAMES)
        lines.append("U8 " + p.hex())
        try:
            p.decode("utf8")
            want.append("1")
        except UnicodeDecodeError:
            want.append("0")
        cases.append({"kind": "utf8", "bytes": p.hex()})
    dist["U8"] = n_u8
    model = ctx.run_driver(lines)
    accepted = rejected = wf_true = wf_false = 0
    for ln, ml, il, c in zip(lines, model, want, cases):
        wf = None
        if c["kind"] == "anim-parse":
            m, il, wf = parse_lines(ml, il)
            if m.startswith("OK"):
                accepted += 1
            else:
                rejected += 1
            if wf == "false":
                d = dict(c)
                d.update({"what": "the model parsed a value outside wf_anim", "model": ml[:300], "impl": il[:300]})
                res.disagreements.append(d)
        elif c["kind"] == "anim-write":
            m, wf = normalise_model_write(ml)
            if wf == "true":
                wf_true += 1
            else:
                wf_false += 1
        else:
            m = ml.strip()
        if m != il:
            d = dict(c)
            d.update({"model": m[:400], "impl": il[:400], "class": "model-vs-code:" + c["kind"],
                      "clause": "extracted model and real code agree on this input", "model_line": m, "model_raw": ml.strip()})
            res.disagreements.append(d)
        elif c["kind"] == "anim-write" and wf == "true" and c.get("rt") is not True:
            res.impl_violations.append({"clause": "a raw animation value inside wf_anim survives to_bytes/from_bytes on the real code",
                                        "class": "anim-raw-roundtrip", "kind": "anim-write", "label": c["label"], "value": c["value"]})
    res.evaluations = len(lines)
    res.distinct_nontrivial = len(set(lines))
    dist.update({"parse-accepted": accepted, "parse-rejected": rejected, "write-wf": wf_true, "write-not-wf": wf_false})
    res.distribution = dist
    res.samples = [{"line": lines[i][:140], "impl": str(want[i])[:140]} for i in (0, 5, len(lines) // 2) if i < len(lines)]
    return res


def replay_case(case):
    """model-vs-code cases are replayed against the model observation stored in the case"""
    kind = case.get("kind")
    if kind == "anim-parse":
        obs = parse_observation(bytes.fromhex(case["bytes"]))
        if "model_raw" in case:
            m, il, _ = parse_lines(case["model_raw"], obs)
            return m != il, {"impl": il[:300], "model": m[:300]}
        return False, "no stored model observation"
    if kind == "anim-write":
        v = value_from_json(case["value"])
        obs, exc, rt = write_observation(v)
        if case.get("class") == "anim-raw-roundtrip":
            return rt is not True, {"impl": obs[:300]}
        if "model_line" in case:
            return obs != case["model_line"], {"impl": obs[:300], "model": case["model_line"][:300]}
        return False, "no stored model observation"
    if kind == "utf8":
        b = bytes.fromhex(case["bytes"])
        try:
            b.decode("utf8")
            obs = "1"
        except UnicodeDecodeError:
            obs = "0"
        return obs != case.get("model_line"), {"impl": obs}
    return False, "unknown case kind %r" % kind
