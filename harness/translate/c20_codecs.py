"""C20 (C): implementation-level oracle for the codec round-trips of the statement.

NOT a proof.  Everything here runs the real /repo code on generated values and evaluates
`parse(serialise(x)) == x` with the value's own equality.  Every failing case is reduced to a
JSON-able `case` (kind + spec) with a stable `class` string, and can be replayed with `replay_case`.

Domains (what the generators stay inside, mirrored from what the wire formats can represent):
  legacy text : strings without TAB/CR/LF/'|' and without leading whitespace; llsd_only fields
                (InventoryCategory.version, InventoryPermissions.is_owner_group) at their defaults;
                masks/flags in 0..2^32-1; dates naive, whole seconds; metadata LLSD whose XML form
                contains no TAB/CR/LF/'|'
  legacy LLSD : same values, llsd_only fields free
  AIS LLSD    : categories have type CATEGORY; LINK items carry the permissions/sale_info AIS
                re-creates for links and have an asset_id (AIS has no slot for them)
  animations  : generated as raw integers/bytes per layout and decoded first (so quantised fields sit
                on their grid); no NaN; duration finite > 0 for version 1.0
  mesh        : built, serialised and parsed once first (on-grid); header offset/size of segment
                headers are layout metadata rewritten by the serialiser and ignored by the comparison
"""
from __future__ import annotations

import copy
import datetime as dt
import logging
import math
import struct

_LOGGING_OFF = False


def _quiet():
    global _LOGGING_OFF
    if not _LOGGING_OFF:
        logging.disable(logging.CRITICAL)
        _LOGGING_OFF = True


# ----------------------------------------------------------------------------------------
# JSON-able specs <-> live objects

def _uuid(s):
    from hippolyzer.lib.base.datatypes import UUID
    return None if s is None else UUID(s)


def _md_to_live(v):
    if isinstance(v, dict):
        if set(v.keys()) == {"$uuid"}:
            return _uuid(v["$uuid"])
        return {k: _md_to_live(x) for k, x in v.items()}
    if isinstance(v, list):
        return [_md_to_live(x) for x in v]
    return v


def _date(ts):
    return None if ts is None else dt.datetime(1970, 1, 1) + dt.timedelta(seconds=ts)


def perms_from_spec(p):
    from hippolyzer.lib.base.inventory import InventoryPermissions
    return InventoryPermissions(
        base_mask=p["base_mask"], owner_mask=p["owner_mask"], group_mask=p["group_mask"],
        everyone_mask=p["everyone_mask"], next_owner_mask=p["next_owner_mask"],
        creator_id=_uuid(p["creator_id"]), owner_id=_uuid(p["owner_id"]),
        last_owner_id=_uuid(p["last_owner_id"]), group_id=_uuid(p["group_id"]),
        is_owner_group=p.get("is_owner_group"))


def sale_from_spec(s):
    from hippolyzer.lib.base.inventory import InventorySaleInfo
    from hippolyzer.lib.base.templates import SaleType
    return None if s is None else InventorySaleInfo(sale_type=SaleType(s["sale_type"]), sale_price=s["sale_price"])


def node_from_spec(n):
    from hippolyzer.lib.base.inventory import InventoryItem, InventoryCategory, InventoryObject
    from hippolyzer.lib.base.templates import AssetType, InventoryType, FolderType
    k = n["k"]
    if k == "cat":
        return InventoryCategory(cat_id=_uuid(n["id"]), parent_id=_uuid(n["parent_id"]), type=AssetType(n["type"]),
                                 pref_type=FolderType(n["pref_type"]), name=n["name"], owner_id=_uuid(n.get("owner_id")),
                                 version=n.get("version", -1), metadata=_md_to_live(n.get("metadata")))
    if k == "obj":
        return InventoryObject(obj_id=_uuid(n["id"]), parent_id=_uuid(n["parent_id"]), type=AssetType(n["type"]),
                               name=n["name"], metadata=_md_to_live(n.get("metadata")))
    opt = lambda key, f: None if n.get(key) is None else f(n[key])
    return InventoryItem(item_id=_uuid(n["id"]), parent_id=_uuid(n["parent_id"]), permissions=perms_from_spec(n["permissions"]),
                         asset_id=_uuid(n.get("asset_id")), shadow_id=_uuid(n.get("shadow_id")),
                         type=opt("type", AssetType), inv_type=opt("inv_type", InventoryType), flags=n.get("flags"),
                         sale_info=sale_from_spec(n.get("sale_info")), name=n.get("name"), desc=n.get("desc"),
                         metadata=_md_to_live(n.get("metadata")), creation_date=_date(n.get("creation_date")))


def model_from_spec(nodes):
    from hippolyzer.lib.base.inventory import InventoryModel
    m = InventoryModel()
    for n in nodes:
        m.add(node_from_spec(n))
    return m


# ----------------------------------------------------------------------------------------
# generators (rng = ctx.rng only)

_ALPHA = "abcXYZ019 _-.,;:!?'\"<>&()[]{}/\\#@*+=~%$^`éü中\U0001F600"
_ODD_WS = " \x0b\x0c\x1c  "


def gen_str(rng, maxlen=12, allow_empty=True):
    n = rng.randrange(0 if allow_empty else 1, maxlen)
    s = "".join(rng.choice(_ALPHA if rng.random() < 0.93 else _ODD_WS) for _ in range(n))
    while s and s[0].isspace():         # legacy text cannot carry leading whitespace
        s = s[1:]
    if rng.random() < 0.15:
        s += rng.choice((" ", "  ", " "))   # trailing whitespace is representable (the '|' protects it)
        if s[0].isspace():
            s = "x" + s
    return s


def gen_md_str(rng, maxlen):
    """strings inside embedded LLSD: characters XML 1.0 can carry, no surrounding whitespace"""
    return "".join(rng.choice(_ALPHA) for _ in range(rng.randrange(0, maxlen))).strip()


def gen_uuid(rng):
    r = rng.random()
    if r < 0.1:
        return "00000000-0000-0000-0000-000000000000"
    return "%08x-%04x-%04x-%04x-%012x" % (rng.getrandbits(32), rng.getrandbits(16), rng.getrandbits(16),
                                          rng.getrandbits(16), rng.getrandbits(48))


def gen_mask(rng):
    return rng.choice((0, 1, 0x7fffffff, 0x80000000, 0xffffffff, 0x0008e000, rng.getrandbits(32)))


def gen_metadata(rng, depth=0):
    r = rng.random()
    if depth >= 2 or r < 0.5:
        k = rng.randrange(6)
        if k == 0:
            return rng.choice((0, 1, -1, 2147483647, -2147483648, rng.randrange(-1000, 1000)))
        if k == 1:
            return gen_md_str(rng, 8)
        if k == 2:
            return {"$uuid": gen_uuid(rng)}
        if k == 3:
            return rng.random() < 0.5
        if k == 4:
            return rng.choice((0.0, 1.5, -2.25, 1e10, 0.1, 3.141592653589793))
        return None
    if r < 0.8:
        return {gen_md_str(rng, 6) or "k": gen_metadata(rng, depth + 1) for _ in range(rng.randrange(0, 4))}
    return [gen_metadata(rng, depth + 1) for _ in range(rng.randrange(0, 4))]


def gen_perms(rng, llsd_only=False):
    p = {"base_mask": gen_mask(rng), "owner_mask": gen_mask(rng), "group_mask": gen_mask(rng),
         "everyone_mask": gen_mask(rng), "next_owner_mask": gen_mask(rng), "creator_id": gen_uuid(rng),
         "owner_id": gen_uuid(rng), "last_owner_id": gen_uuid(rng), "group_id": gen_uuid(rng)}
    if llsd_only and rng.random() < 0.5:
        p["is_owner_group"] = rng.choice((0, 1))
    return p


AIS_LINK_PERMS = {"base_mask": 0xFFFFFFFF, "owner_mask": 0xFFFFFFFF, "group_mask": 0xFFFFFFFF, "everyone_mask": 0,
                  "next_owner_mask": 0xFFFFFFFF, "creator_id": "00000000-0000-0000-0000-000000000000",
                  "owner_id": "00000000-0000-0000-0000-000000000000", "last_owner_id": "00000000-0000-0000-0000-000000000000",
                  "group_id": "00000000-0000-0000-0000-000000000000"}


_ENUM_CACHE = {}


def enum_values(name):
    """members usable by the inventory generators: those whose lookup name round-trips (the others are
    reported once by the exhaustive enum check; using them here would only repeat that finding)"""
    import hippolyzer.lib.base.templates as t
    if name not in _ENUM_CACHE:
        cls = getattr(t, name)
        ok = []
        for m in cls:
            try:
                if cls.from_lookup_name(m.to_lookup_name()) == m:
                    ok.append(int(m))
            except Exception:
                pass
        _ENUM_CACHE[name] = ok or [int(m) for m in cls]
    return _ENUM_CACHE[name]


def gen_date(rng):
    return rng.choice((0, 1, 1587367239, 2147483647, 2147483648, 4102444800, rng.randrange(0, 4102444800),
                       -1, -86400 * 365 * 5))


def gen_node(rng, idx, kind, flavour, parent, fill):
    """fill: 'all' | 'none' | 'rand' - which optional fields are present; idx drives exhaustive enum cycling"""
    at, it, ft, st = (enum_values(n) for n in ("AssetType", "InventoryType", "FolderType", "SaleType"))
    present = (lambda: True) if fill == "all" else (lambda: False) if fill == "none" else (lambda: rng.random() < 0.5)
    llsd = flavour != "text"
    nid = "%08x-0000-4000-8000-%012x" % (idx + 1, rng.getrandbits(48))
    if kind == "cat":
        n = {"k": "cat", "id": nid, "parent_id": parent, "type": at[idx % len(at)] if flavour != "ais" else 8,
             "pref_type": ft[idx % len(ft)], "name": gen_str(rng)}
        if present():
            n["owner_id"] = gen_uuid(rng)
        if llsd and present():
            n["version"] = rng.choice((0, 1, 7, -1, 2147483647))
        if present():
            n["metadata"] = gen_metadata(rng)
        return n
    if kind == "obj":
        n = {"k": "obj", "id": nid, "parent_id": parent, "type": at[idx % len(at)], "name": gen_str(rng)}
        if present():
            n["metadata"] = gen_metadata(rng)
        return n
    n = {"k": "item", "id": nid, "parent_id": parent, "permissions": gen_perms(rng, llsd)}
    if present():
        n["type"] = at[idx % len(at)]
    if present():
        n["asset_id"] = gen_uuid(rng)
    if present():
        n["shadow_id"] = gen_uuid(rng)
    if present():
        n["inv_type"] = it[idx % len(it)]
    if present():
        n["flags"] = gen_mask(rng)
    if present():
        n["sale_info"] = {"sale_type": st[idx % len(st)], "sale_price": rng.choice((0, 10, -1, 2147483647, rng.randrange(0, 99999)))}
    if present():
        n["name"] = gen_str(rng)
    if present():
        n["desc"] = gen_str(rng, 30)
    if present():
        n["metadata"] = gen_metadata(rng)
    if present():
        n["creation_date"] = gen_date(rng)
    if flavour == "ais" and n.get("type") == 24:      # LINK: AIS carries no permissions/sale_info, and needs the target
        n["permissions"] = dict(AIS_LINK_PERMS)
        n["sale_info"] = {"sale_type": 0, "sale_price": 0}
        n.setdefault("asset_id", gen_uuid(rng))
    return n


def gen_models(rng, flavour, count):
    """yields node-spec lists; the first models sweep every enum member with all / no optional fields"""
    n_enum = max(len(enum_values(n)) for n in ("AssetType", "InventoryType", "FolderType", "SaleType"))
    root = "00000000-0000-0000-0000-000000000000"
    for fill in ("all", "none"):
        nodes = []
        for i in range(n_enum):
            for kind in ("cat", "obj", "item"):
                nodes.append(gen_node(rng, i, kind, flavour, root if i == 0 else nodes[0]["id"], fill))
        # ids must be unique: idx is shared between the kinds, make them distinct
        for j, n in enumerate(nodes):
            n["id"] = "%08x-%s" % (j + 1, n["id"].split("-", 1)[1])
        yield nodes
    for _ in range(count):
        nodes = []
        for j in range(rng.randrange(1, 7)):
            kind = rng.choice(("cat", "obj", "item", "item"))
            n = gen_node(rng, rng.randrange(0, 997), kind, flavour, root if not nodes else rng.choice(nodes)["id"], "rand")
            n["id"] = "%08x-%s" % (j + 1, n["id"].split("-", 1)[1])
            nodes.append(n)
        yield nodes


# ----------------------------------------------------------------------------------------
# inventory oracle

def _diff_fields(a, b):
    import dataclasses
    if type(a) is not type(b):
        return ["<class>"]
    out = []
    for f in dataclasses.fields(a):
        if f.compare and getattr(a, f.name) != getattr(b, f.name):
            out.append(f.name)
    return out


def inv_roundtrip(nodes, flavour, level):
    """returns None or a violation dict (without the case) for one model spec"""
    from hippolyzer.lib.base.inventory import InventoryModel
    _quiet()
    if level == "model" and flavour in ("legacy", "ais"):
        nodes = [n for n in nodes if inv_roundtrip([n], flavour, "node") is None]
    m = model_from_spec(nodes)
    if level == "node":          # the way inventory_manager uses the AIS flavour
        for n in list(m.nodes.values()):
            try:
                ser = n.to_llsd(flavour) if flavour != "text" else n.to_str()
            except Exception as e:
                return {"clause": "serialise raised", "class": "%s:node:serialise:EXC:%s:%s" % (flavour, type(n).__name__, type(e).__name__)}
            try:
                back = type(n).from_llsd(ser, flavour) if flavour != "text" else None
            except Exception as e:
                return {"clause": "parse(serialise(node)) raised", "class": "%s:node:parse:EXC:%s:%s" % (flavour, type(n).__name__, type(e).__name__)}
            if back != n:
                d = _diff_fields(n, back) if back is not None else ["<None>"]
                return {"clause": "parse(serialise(node)) == node", "class": "%s:node:differs:%s:%s" % (flavour, type(n).__name__, "+".join(d))}
        return None
    try:
        if flavour == "text":
            ser = m.to_str()
        elif flavour == "bytes":
            ser = m.to_bytes()
        else:
            ser = m.to_llsd(flavour)
    except Exception as e:
        return {"clause": "serialise raised", "class": "%s:model:serialise:EXC:%s" % (flavour, type(e).__name__)}
    try:
        if flavour == "text":
            back = InventoryModel.from_str(ser)
        elif flavour == "bytes":
            back = InventoryModel.from_bytes(ser)
        else:
            back = InventoryModel.from_llsd(ser, flavour)
    except Exception as e:
        return {"clause": "parse(serialise(model)) raised", "class": "%s:model:parse:EXC:%s" % (flavour, type(e).__name__)}
    if back == m:
        return None
    for k, n in m.nodes.items():
        b = back.nodes.get(k)
        if b is None:
            return {"clause": "parse(serialise(model)) == model", "class": "%s:model:node-lost:%s" % (flavour, type(n).__name__)}
        if b != n:
            return {"clause": "parse(serialise(model)) == model", "class": "%s:model:differs:%s:%s" % (flavour, type(n).__name__, "+".join(_diff_fields(n, b)))}
    return {"clause": "parse(serialise(model)) == model", "class": "%s:model:extra-nodes" % flavour}


def shrink_inv(nodes, flavour, level, cls):
    """greedy: fewer nodes, then fewer optional fields, keeping the same violation class"""
    def bad(ns):
        try:
            v = inv_roundtrip(ns, flavour, level)
        except Exception:
            return False
        return v is not None and v["class"] == cls
    changed = True
    while changed and len(nodes) > 1:
        changed = False
        for i in range(len(nodes)):
            t = nodes[:i] + nodes[i + 1:]
            if bad(t):
                nodes, changed = t, True
                break
    for i in range(len(nodes)):
        for key in list(nodes[i].keys()):
            if key in ("k", "id", "parent_id", "permissions", "type", "pref_type", "name") and not (nodes[i]["k"] == "item" and key in ("type", "name")):
                continue
            t = copy.deepcopy(nodes)
            del t[i][key]
            if bad(t):
                nodes = t
    return nodes


def check_inventory(ctx, res_violations, stats):
    rng = ctx.rng
    seen = set()
    combos = [("text", "model"), ("bytes", "model"), ("legacy", "model"), ("legacy", "node"), ("ais", "model"), ("ais", "node")]
    for flavour, level in combos:
        gflav = "text" if flavour == "bytes" else flavour
        count = ctx.pick(150, 2500)
        for nodes in gen_models(rng, gflav, count):
            stats["inventory:%s:%s" % (flavour, level)] = stats.get("inventory:%s:%s" % (flavour, level), 0) + 1
            stats["nodes"] = stats.get("nodes", 0) + len(nodes)
            try:
                v = inv_roundtrip(nodes, flavour, level)
            except Exception as e:       # generator/adapter trouble: surface it, never crash
                v = {"clause": "oracle adapter raised", "class": "%s:%s:adapter:EXC:%s" % (flavour, level, type(e).__name__)}
            if v and v["class"] not in seen:
                seen.add(v["class"])
                small = shrink_inv(nodes, flavour, level, v["class"])
                v.update({"kind": "inventory", "flavour": flavour, "level": level, "nodes": small})
                res_violations.append(v)


# ----------------------------------------------------------------------------------------
# lookup-name enums (finite, exhaustive)

LOOKUP_ENUMS = ("AssetType", "InventoryType", "FolderType", "SaleType")


def check_enum_member(enum_name, member_name):
    import hippolyzer.lib.base.templates as t
    cls = getattr(t, enum_name)
    m = cls[member_name]
    try:
        name = m.to_lookup_name()
        back = cls.from_lookup_name(name)
    except Exception as e:
        return {"clause": "from_lookup_name(to_lookup_name(e)) raised", "class": "enum:%s:EXC:%s" % (enum_name, type(e).__name__)}
    if back != m or not isinstance(name, str):
        return {"clause": "from_lookup_name(to_lookup_name(e)) == e", "class": "enum:%s:differs" % enum_name, "got": repr(back)}
    # the token must survive the line framing as a single value
    if name == "" or any(c in name for c in "\t\r\n|") or name != name.strip():
        return {"clause": "lookup name is representable as a schema value", "class": "enum:%s:unrepresentable-name" % enum_name}
    return None


def check_enums(ctx, res_violations, stats):
    import hippolyzer.lib.base.templates as t
    for en in LOOKUP_ENUMS:
        cls = getattr(t, en)
        names = {}
        for mname, m in cls.__members__.items():
            stats["enum:" + en] = stats.get("enum:" + en, 0) + 1
            v = check_enum_member(en, mname)
            if v:
                v.update({"kind": "enum", "enum": en, "member": mname})
                res_violations.append(v)
                continue
            ln = m.to_lookup_name()
            if ln in names and names[ln] != int(m):
                res_violations.append({"clause": "lookup names are injective", "class": "enum:%s:name-collision" % en,
                                       "kind": "enum", "enum": en, "member": mname})
            names[ln] = int(m)


def enum_tables():
    """live (value, lookup name) tables, for the generated Coq obligation"""
    import hippolyzer.lib.base.templates as t
    out = {}
    for en in LOOKUP_ENUMS:
        cls = getattr(t, en)
        rows = []
        for mname, m in cls.__members__.items():
            if m.name != mname:
                continue        # alias
            rows.append((int(m), m.to_lookup_name()))
        out[en] = rows
    return out


# ----------------------------------------------------------------------------------------
# wearables

def wearable_from_spec(s):
    from hippolyzer.lib.base.wearables import Wearable
    from hippolyzer.lib.base.templates import WearableType
    return Wearable(name=s["name"], wearable_type=WearableType(s["wearable_type"]), permissions=perms_from_spec(s["permissions"]),
                    sale_info=sale_from_spec(s["sale_info"]),
                    parameters={int(k): float.fromhex(v) for k, v in s["parameters"]},
                    textures={int(k): _uuid(v) for k, v in s["textures"]})


def check_wearable(spec):
    from hippolyzer.lib.base.wearables import Wearable
    _quiet()
    w = wearable_from_spec(spec)
    try:
        text = w.to_str()
    except Exception as e:
        return {"clause": "serialise raised", "class": "wearable:serialise:EXC:%s" % type(e).__name__}
    try:
        back = Wearable.from_str(text)
    except Exception as e:
        return {"clause": "parse(serialise(w)) raised", "class": "wearable:parse:EXC:%s" % type(e).__name__}
    if back != w:
        return {"clause": "parse(serialise(w)) == w", "class": "wearable:differs:" + "+".join(_diff_fields(w, back))}
    return None


def gen_wearable(rng):
    import hippolyzer.lib.base.templates as t
    wt = [int(m) for m in t.WearableType]
    st = enum_values("SaleType")
    name = gen_str(rng, 20, False).rstrip() or "n"
    params = []
    used = set()
    for _ in range(rng.randrange(0, 8)):
        k = rng.choice((0, 1, 33, 841, 65535, rng.randrange(0, 2000)))
        if k in used:
            continue
        used.add(k)
        v = rng.choice((0.0, -0.0, 1.0, -0.12, 0.5, 1e-7, 123456.789, struct.unpack("<d", struct.pack("<Q", rng.getrandbits(64)))[0]))
        if math.isnan(v) or math.isinf(v):
            v = 0.25
        params.append((k, float(v).hex()))
    tex = []
    used = set()
    for _ in range(rng.randrange(0, 4)):
        k = rng.randrange(0, 40)
        if k in used:
            continue
        used.add(k)
        tex.append((k, gen_uuid(rng)))
    return {"name": name, "wearable_type": rng.choice(wt), "permissions": gen_perms(rng),
            "sale_info": {"sale_type": rng.choice(st), "sale_price": rng.randrange(0, 1000)},
            "parameters": params, "textures": tex}


def check_wearables(ctx, res_violations, stats):
    seen = set()
    for _ in range(ctx.pick(300, 5000)):
        spec = gen_wearable(ctx.rng)
        stats["wearable"] = stats.get("wearable", 0) + 1
        try:
            v = check_wearable(spec)
        except Exception as e:
            v = {"clause": "oracle adapter raised", "class": "wearable:adapter:EXC:%s" % type(e).__name__}
        if v and v["class"] not in seen:
            seen.add(v["class"])
            v.update({"kind": "wearable", "spec": spec})
            res_violations.append(v)


# ----------------------------------------------------------------------------------------
# animations: raw bytes per layout, both format versions

def _f32(rng, positive=False):
    while True:
        r = rng.random()
        if r < 0.4:
            v = rng.choice((0.0, 1.0, 0.5, 2.0, 1.6333398818969727, 0.1, 30.0))
            if not positive:
                v = rng.choice((v, -v))
        else:
            v = struct.unpack("<f", struct.pack("<I", rng.getrandbits(32)))[0]
        if math.isnan(v) or math.isinf(v):
            continue
        if positive and not v > 0:
            continue
        return struct.pack("<f", v)


def _cstr(rng, maxlen=10):
    s = "".join(rng.choice("abcmPelvisNeck_ 01é") for _ in range(rng.randrange(0, maxlen)))
    return s.encode("utf8") + b"\x00"


def _fixed16(rng):
    s = "".join(rng.choice("abcmPelvis_ 01") for _ in range(rng.randrange(0, 17))).encode("utf8")
    return s + b"\x00" * (16 - len(s))


def _u16(rng):
    return struct.pack("<H", rng.choice((0, 1, 0x7fff, 0x8000, 0xffff, 0xfffe, rng.getrandbits(16))))


def gen_anim_bytes(rng, version):
    v10 = version == (1, 0)
    b = bytearray()
    b += struct.pack("<HHi", version[0], version[1], rng.choice((0, 1, 4, -1, 2147483647, -2147483648)))
    b += _f32(rng, positive=True)               # duration
    b += _cstr(rng)
    b += _f32(rng) + _f32(rng)
    b += struct.pack("<i", rng.choice((0, 1, -1)))
    b += _f32(rng) + _f32(rng)
    b += struct.pack("<I", rng.randrange(0, 14))
    nj = rng.randrange(0, 4)
    b += struct.pack("<I", nj)
    for _ in range(nj):
        b += _cstr(rng) if rng.random() < 0.8 else b"mNeck\x00"     # duplicate joint names are legal (multidict)
        b += struct.pack("<i", rng.choice((0, 1, 6, -1)))
        nr = rng.randrange(0, 4)
        b += struct.pack("<i", nr)
        for _ in range(nr):
            if v10:
                b += _u16(rng) + _u16(rng) + _u16(rng) + _u16(rng)
            else:
                b += _f32(rng) + _f32(rng) + _f32(rng) + _f32(rng)
        npos = rng.randrange(0, 4)
        b += struct.pack("<i", npos)
        for _ in range(npos):
            if v10:
                b += _u16(rng) + _u16(rng) + _u16(rng) + _u16(rng)
            else:
                b += _f32(rng) + _f32(rng) + _f32(rng) + _f32(rng)
    nc = rng.randrange(0, 3)
    b += struct.pack("<i", nc)
    for _ in range(nc):
        b += bytes([rng.randrange(0, 256), rng.randrange(0, 2)])
        b += _fixed16(rng) + _f32(rng) * 0 + b"".join(_f32(rng) for _ in range(3))
        b += _fixed16(rng) + b"".join(_f32(rng) for _ in range(3))
        b += b"".join(_f32(rng) for _ in range(3))
        b += b"".join(_f32(rng) for _ in range(4))
    return bytes(b)


def check_anim(raw: bytes):
    from hippolyzer.lib.base.llanim import Animation
    _quiet()
    try:
        a1 = Animation.from_bytes(raw)
    except Exception as e:
        return {"clause": "layout-valid animation bytes parse", "class": "anim:first-parse:EXC:%s" % type(e).__name__, "soft": True}
    ver = "%d.%d" % (a1.major_version, a1.minor_version)
    try:
        ser = a1.to_bytes()
    except Exception as e:
        return {"clause": "serialise raised", "class": "anim:%s:serialise:EXC:%s" % (ver, type(e).__name__)}
    try:
        a2 = Animation.from_bytes(ser)
    except Exception as e:
        return {"clause": "parse(serialise(a)) raised", "class": "anim:%s:parse:EXC:%s" % (ver, type(e).__name__)}
    if a2 != a1:
        return {"clause": "parse(serialise(a)) == a", "class": "anim:%s:differs:%s" % (ver, "+".join(_diff_fields(a1, a2)))}
    return None


def check_anims(ctx, res_violations, stats, notes):
    seen = set()
    raws = []
    try:
        from tests.base.test_serialization import AnimSerializationTests
        raws.append(AnimSerializationTests.SIMPLE_ANIM)
    except Exception:
        pass
    for version in ((1, 0), (0, 1)):
        for _ in range(ctx.pick(250, 4000)):
            raws.append(gen_anim_bytes(ctx.rng, version))
    for raw in raws:
        stats["anim"] = stats.get("anim", 0) + 1
        try:
            v = check_anim(raw)
        except Exception as e:
            v = {"clause": "oracle adapter raised", "class": "anim:adapter:EXC:%s" % type(e).__name__}
        if v and v.get("soft"):
            stats["anim:first-parse-failed"] = stats.get("anim:first-parse-failed", 0) + 1
            if v["class"] not in seen:
                seen.add(v["class"])
                notes.append("animation generator produced bytes the parser rejects (%s): %s" % (v["class"], raw.hex()[:120]))
            continue
        if v and v["class"] not in seen:
            seen.add(v["class"])
            v.update({"kind": "anim", "bytes": raw.hex()})
            res_violations.append(v)


# ----------------------------------------------------------------------------------------
# mesh

def _strip_layout(header):
    h = copy.deepcopy(header)
    for v in h.values():
        if isinstance(v, dict) and "offset" in v and "size" in v:
            v.pop("offset")
            v.pop("size")
    return h


def mesh_write(mesh):
    import hippolyzer.lib.base.serialization as se
    from hippolyzer.lib.base.mesh import LLMeshSerializer
    w = se.BufferWriter("!")
    w.write(LLMeshSerializer(), mesh)
    return w.copy_buffer()


def mesh_read(data):
    import hippolyzer.lib.base.serialization as se
    from hippolyzer.lib.base.mesh import LLMeshSerializer
    return se.BufferReader("!", data).read(LLMeshSerializer())


def check_mesh_bytes(raw: bytes):
    """raw = a serialised mesh; M1 = parse(raw) is the (on-grid) model under test"""
    _quiet()
    try:
        m1 = mesh_read(raw)
    except Exception as e:
        return {"clause": "first parse", "class": "mesh:first-parse:EXC:%s" % type(e).__name__, "soft": True}
    try:
        ser = mesh_write(m1)
    except Exception as e:
        return {"clause": "serialise raised", "class": "mesh:serialise:EXC:%s" % type(e).__name__}
    try:
        m2 = mesh_read(ser)
    except Exception as e:
        return {"clause": "parse(serialise(m)) raised", "class": "mesh:parse:EXC:%s" % type(e).__name__}
    if m2.segments != m1.segments:
        bad = sorted(k for k in set(m1.segments) | set(m2.segments) if m1.segments.get(k) != m2.segments.get(k))
        return {"clause": "parse(serialise(m)).segments == m.segments", "class": "mesh:segments-differ:" + "+".join(bad)}
    if _strip_layout(m2.header) != _strip_layout(m1.header):
        return {"clause": "parse(serialise(m)).header == m.header (modulo offset/size)", "class": "mesh:header-differs"}
    try:
        m3 = mesh_read(mesh_write(m2))
    except Exception as e:
        return {"clause": "second generation raised", "class": "mesh:second-gen:EXC:%s" % type(e).__name__}
    if m3 != m2:
        return {"clause": "second generation is a fixed point (header included)", "class": "mesh:second-gen-differs"}
    return None


def gen_mesh(rng):
    from hippolyzer.lib.base.mesh import MeshAsset, VertexWeight
    from hippolyzer.lib.base.datatypes import Vector3, Vector2, UUID
    u16 = lambda: rng.choice((0, 1, 0x7fff, 0x8000, 0xffff, rng.getrandbits(16)))
    unit = lambda: u16() / 0xffff
    m = MeshAsset()
    m.header = {"version": 1}
    if rng.random() < 0.5:
        m.header["creator"] = UUID(int=rng.getrandbits(128))
    if rng.random() < 0.3:
        m.header["material_list"] = ["mat-%d" % i for i in range(rng.randrange(0, 3))]

    def lod():
        mats = []
        for _ in range(rng.randrange(1, 4)):
            if rng.random() < 0.15:
                mats.append({"NoGeometry": True})
                continue
            nv = rng.randrange(1, 7)
            mat = {
                "Position": [Vector3(unit(), unit(), unit()) for _ in range(nv)],
                "PositionDomain": {"Max": [0.5, 0.5, rng.random()], "Min": [-0.5, -0.5, -rng.random()]},
                "TriangleList": [[rng.randrange(nv), rng.randrange(nv), rng.randrange(nv)] for _ in range(rng.randrange(1, 5))],
            }
            if rng.random() < 0.8:
                mat["Normal"] = [Vector3(unit() * 2 - 1, unit() * 2 - 1, unit() * 2 - 1) for _ in range(nv)]
            if rng.random() < 0.8:
                mat["TexCoord0"] = [Vector2(unit(), unit()) for _ in range(nv)]
                mat["TexCoord0Domain"] = {"Max": [1.0, 1.0], "Min": [0.0, 0.0]}
            if rng.random() < 0.5:
                mat["Weights"] = [[VertexWeight(rng.randrange(0, 255), unit()) for _ in range(rng.randrange(0, 5))] for _ in range(nv)]
            mats.append(mat)
        return mats
    for name in ("lowest_lod", "low_lod", "medium_lod", "high_lod", "physics_mesh"):
        if name == "high_lod" or rng.random() < 0.5:
            m.header[name] = {"offset": 0, "size": 0}
            m.segments[name] = lod()
    if rng.random() < 0.6:
        m.header["physics_convex"] = {"offset": 0, "size": 0}
        seg = {"Max": [0.5, 0.5, 0.5], "Min": [-0.5, -0.5, -0.5],
               "BoundingVerts": [Vector3(unit() * 2 - 1, unit() * 2 - 1, unit() * 2 - 1) for _ in range(rng.randrange(1, 6))]}
        if rng.random() < 0.5:
            hl = [rng.randrange(1, 4) for _ in range(rng.randrange(1, 3))]
            seg["HullList"] = hl
            seg["Positions"] = [Vector3(unit() * 2 - 1, unit() * 2 - 1, unit() * 2 - 1) for _ in range(sum(hl))]
        m.segments["physics_convex"] = seg
    if rng.random() < 0.5:
        m.header["skin"] = {"offset": 0, "size": 0}
        nj = rng.randrange(1, 4)
        seg = {"joint_names": ["mJoint%d" % i for i in range(nj)],
               "bind_shape_matrix": [rng.random() for _ in range(16)],
               "inverse_bind_matrix": [[rng.random() for _ in range(16)] for _ in range(nj)]}
        if rng.random() < 0.5:
            seg["pelvis_offset"] = rng.random()
            seg["lock_scale_if_joint_position"] = rng.random() < 0.5
        m.segments["skin"] = seg
    if rng.random() < 0.3:
        m.header["physics_havok"] = {"offset": 0, "size": 0, "version": 1}
        m.segments["physics_havok"] = {"WeldingData": bytes(rng.getrandbits(8) for _ in range(rng.randrange(0, 20))),
                                       "HullMassProps": {"mass": rng.random(), "CoM": [0.0, 0.5, 1.0]}}
    return m


def check_meshes(ctx, res_violations, stats, notes, repo):
    import os
    seen = set()
    raws = []
    fx = os.path.join(repo, "tests", "base", "test_resources", "testslm.slm")
    if os.path.exists(fx):
        raws.append(("fixture", open(fx, "rb").read()))
    try:
        from hippolyzer.lib.base.mesh import MeshAsset
        raws.append(("triangle", mesh_write(MeshAsset.make_triangle())))
    except Exception as e:
        res_violations.append({"clause": "serialise(make_triangle()) raised", "class": "mesh:triangle:EXC:%s" % type(e).__name__,
                               "kind": "mesh", "bytes": ""})
    for _ in range(ctx.pick(120, 2000)):
        m0 = gen_mesh(ctx.rng)
        try:
            raws.append(("gen", mesh_write(m0)))
        except Exception as e:
            stats["mesh:gen-serialise-failed"] = stats.get("mesh:gen-serialise-failed", 0) + 1
            c = "mesh:gen-serialise:EXC:%s" % type(e).__name__
            if c not in seen:
                seen.add(c)
                notes.append("mesh generator value could not be serialised (%s: %s)" % (c, str(e)[:200]))
    for src, raw in raws:
        stats["mesh:" + src] = stats.get("mesh:" + src, 0) + 1
        try:
            v = check_mesh_bytes(raw)
        except Exception as e:
            v = {"clause": "oracle adapter raised", "class": "mesh:adapter:EXC:%s" % type(e).__name__}
        if v and v.get("soft"):
            notes.append("mesh first parse failed: %s" % v["class"])
            continue
        if v and v["class"] not in seen:
            seen.add(v["class"])
            v.update({"kind": "mesh", "bytes": raw.hex()})
            res_violations.append(v)


# ----------------------------------------------------------------------------------------

def replay_case(case):
    kind = case.get("kind")
    if kind == "inventory":
        v = inv_roundtrip(case["nodes"], case["flavour"], case["level"])
    elif kind == "enum":
        v = check_enum_member(case["enum"], case["member"])
    elif kind == "wearable":
        v = check_wearable(case["spec"])
    elif kind == "anim":
        v = check_anim(bytes.fromhex(case["bytes"]))
        if v and v.get("soft"):
            v = None
    elif kind == "mesh":
        v = check_mesh_bytes(bytes.fromhex(case["bytes"]))
        if v and v.get("soft"):
            v = None
    else:
        return False, "unknown case kind %r" % kind
    return (v is not None), (v or "holds")
