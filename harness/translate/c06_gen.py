"""C06 (G) translator: regenerate the message.xml flavor table (the UDP ban list) from the live
repo object and emit coq/gen/C06_gen.v, whose lemma states that it equals the table the
model was written against (Proxy/UdpProxy.v : message_xml_src)."""
import os
import re


def live_table():
    from hippolyzer.lib.base.message.message_dot_xml import MessageDotXML
    m = MessageDotXML()
    out = []
    for name, v in m.messages.items():
        f = v.get("flavor") if hasattr(v, "get") else None
        fl = "FMissing" if f is None else ("FTemplate" if f == "template" else "FOther")
        out.append((str(name), fl))
    return out


SPECIAL_NAMES = ["UseCircuitCode", "PacketAck", "RegionHandshake", "AgentDataUpdate", "StartPingCheck",
                 "CloseCircuit", "DisableSimulator", "AgentMovementComplete"]


def emit(coq_dir: str):
    from hippolyzer.lib.base.message.template_dict import DEFAULT_TEMPLATE_DICT as T
    tbl = live_table()
    for n, _ in tbl:
        if not re.fullmatch(r"[A-Za-z0-9_]+", n):
            raise ValueError("unexpected message name in message.xml: %r" % n)
    # facts about the live template the model relies on
    for n in SPECIAL_NAMES:
        if T.get_template_by_name(n) is None:
            raise ValueError("model special-cases %s but the live template has no such message" % n)
    missing_in_template = [n for n, f in tbl if f == "FMissing" and T.get_template_by_name(n) is not None]
    if missing_in_template:
        raise ValueError("flavor-less message.xml entries that are template messages (KeyError reachable): %r"
                         % missing_in_template)
    body = ";\n   ".join('("%s", %s)' % (n, f) for n, f in tbl)
    src = (
        "(* GENERATED on every run by harness/translate/c06_gen.py from the live\n"
        "   hippolyzer.lib.base.message.message_dot_xml.MessageDotXML().messages - do not edit *)\n"
        "From Coq Require Import List String.\n"
        "From HV Require Import Proxy.UdpProxy.\n"
        "Import ListNotations.\n\n"
        "Definition live_message_xml : list (string * flavor) :=\n  [" + body + "]%string.\n\n"
        "Lemma C06_gen_message_xml_matches : live_message_xml = message_xml_src.\n"
        "Proof. reflexivity. Qed.\n"
    )
    os.makedirs(os.path.join(coq_dir, "gen"), exist_ok=True)
    p = os.path.join(coq_dir, "gen", "C06_gen.v")
    old = open(p).read() if os.path.exists(p) else None
    if old != src:
        with open(p, "w") as f:
            f.write(src)
    banned = [n for n, f in tbl if f == "FOther"]
    return tbl, banned
