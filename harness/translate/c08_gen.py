"""C08 - generators: random / exhaustive spec trees over the combinator grammar, values of the
derived domain of a spec (per mode), and values violating exactly one length / range limit."""
import itertools

from harness.translate.c08_specs import Node, delimited, min_size, ip_range, bits_f, is_nan_bits, mods

INT_PRIMS = [(k, w) for k in ("u", "s") for w in (1, 2, 4, 8)]
TERM_SETS = [(0,), (10,), (32, 9, 13, 10), (0, 59)]
ALPHABET = ["a", "b", "Z", "0", " ", "\n", ";", "\t", "é", "ß", "€", "中", "\U0001f600", "\x00", "\x7f"]


def can_empty(n: Node) -> bool:
    """decoding may succeed on empty input (so a huge garbage count would spin)"""
    k, a = n.k, n.a
    if k in ("bytesgreedy", "null", "ifpresent", "optflagged"):
        return True
    if k == "ctxswitch":
        return any(can_empty(c) for c in n.ch)
    if k == "ctxadapter":
        return can_empty(n.ch[0])
    if k in ("bytesterm", "cstr"):
        return a[2]
    if k in ("bytesfixed", "strfixed"):
        return a[0] == 0
    if k in ("tuple", "template", "coord", "dataclass"):
        return all(can_empty(c) for c in n.ch)
    if k == "coll":
        lk = a[0]
        return lk[0] == "greedy" or (lk[0] == "fixed" and (lk[1] == 0 or can_empty(n.ch[0])))
    if k == "adapter":
        return can_empty(n.ch[0])
    if k == "typed":
        tk = a[0]
        return tk[0] in ("greedy", "term") or (tk[0] == "fixed" and tk[1] == 0)
    if k == "lenswitch":
        return any(can_empty(c) for c in n.ch)
    return False


def spin_risk(n: Node) -> bool:
    for x in n.walk():
        if x.k == "coll" and x.a[0][0] == "prefixed" and x.a[0][2] >= 4 and can_empty(x.ch[0]):
            return True
    return False


def fixed_size(n: Node):
    """Python mirror of calc_size-like exact size (used only to pick sensible TypedBytesFixed widths)"""
    k, a = n.k, n.a
    if k == "prim":
        return a[1]
    if k in ("bytesfixed", "strfixed"):
        return a[0]
    if k == "uuid":
        return 16
    if k == "null":
        return 0
    if k in ("tuple", "template", "coord", "dataclass"):
        t = 0
        for c in n.ch:
            s = fixed_size(c)
            if s is None:
                return None
            t += s
        return t
    if k == "adapter":
        return fixed_size(n.ch[0])
    if k == "coll" and a[0][0] == "fixed" and a[0][1] != 0:
        s = fixed_size(n.ch[0])
        return None if s is None else s * a[0][1]
    return None


# ---------------------------------------------------------------- spec trees

def gen_tbl(rng, flags=False, rngfor=None):
    n = rng.randrange(1, 5)
    names = rng.sample(range(0, 9), n)
    if flags:
        bits = rng.sample(range(0, 8 if rng.random() < 0.8 else 16), n)
        return tuple((nm, 1 << b) for nm, b in zip(names, bits))
    vals = []
    for _ in range(n):
        r = rng.random()
        if r < 0.15 and vals:
            vals.append(rng.choice(vals))        # alias
        elif r < 0.8:
            vals.append(rng.randrange(0, 6))
        else:
            vals.append(rng.choice((-1, -3, 100, 255, 256, 70000)))
    return tuple(zip(names, vals))


def gen_leaf(rng, need_delim):
    r = rng.random()
    if not need_delim and r < 0.35:
        c = rng.random()
        if c < 0.5:
            return Node("bytesgreedy")
        ts = rng.choice(TERM_SETS)
        return Node("cstr" if c < 0.8 else "bytesterm", (ts, False, True))
    r = rng.random()
    if r < 0.30:
        return Node("prim", rng.choice(INT_PRIMS))
    if r < 0.38:
        return Node("prim", ("f", rng.choice((4, 8))))
    if r < 0.48:
        return Node("bytearray", (rng.random() < 0.2, rng.choice((1, 1, 2, 4, 8))))
    if r < 0.56:
        return Node("bytesfixed", (rng.choice((0, 1, 2, 3, 4)),))
    if r < 0.66:
        return Node("str", (rng.random() < 0.15, rng.choice((1, 1, 2, 4)), rng.random() < 0.7))
    if r < 0.73:
        return Node("strfixed", (rng.choice((0, 1, 3, 4, 6)),))
    if r < 0.83:
        return Node("cstr", (rng.choice(TERM_SETS), True, rng.random() < 0.7))
    if r < 0.88:
        return Node("bytesterm", (rng.choice(TERM_SETS), True, rng.random() < 0.7))
    if r < 0.95:
        return Node("uuid")
    return Node("null")


def gen_spec(rng, depth, need_delim=False, sloppy=0.0, stage2=0.0, wave2=True):
    """a random tree; with probability `sloppy` a position ignores the tail-position discipline
    (non-wf specs: still compared with the model, outside the proved fragment)"""
    if rng.random() < sloppy:
        need_delim = False
    if depth <= 0 or rng.random() < 0.25:
        return gen_leaf(rng, need_delim)
    if stage2 and rng.random() < stage2:
        s2 = gen_stage2(rng, depth, need_delim, sloppy, stage2)
        if s2 is not None:
            return s2
    if wave2 and rng.random() < 0.22:
        return gen_wave2(rng, depth, need_delim, sloppy, stage2)
    r = rng.random()
    sub = lambda nd: gen_spec(rng, depth - 1, nd, sloppy, stage2, wave2)
    if r < 0.22:
        n = rng.choice((0, 1, 2, 2, 3, 3))
        return Node("tuple", (), [sub(True if i < n - 1 else need_delim) for i in range(n)])
    if r < 0.42:
        n = rng.choice((1, 2, 2, 3, 3, 4))
        names = tuple(rng.sample(range(0, 8), n))
        return Node("template", (names, rng.random() < 0.4), [sub(True if i < n - 1 else need_delim) for i in range(n)])
    if r < 0.62:
        c = rng.random()
        if c < 0.5 or need_delim and c < 0.75:
            lk = ("prefixed", rng.random() < 0.2, rng.choice((1, 1, 2, 4)))
        elif c < 0.75 or need_delim:
            lk = ("fixed", rng.choice((0, 1, 2, 3)) if rng.random() < sloppy + 0.05 else rng.choice((1, 2, 3)))
        else:
            lk = ("greedy",)
        greedy = lk[0] == "greedy" or lk == ("fixed", 0)
        if greedy and need_delim and rng.random() >= sloppy:
            lk = ("fixed", 2)
            greedy = False
        for _ in range(8):
            ch = sub(True)
            if not greedy or min_size(ch) > 0 or rng.random() < sloppy:
                break
        else:
            ch = Node("prim", ("u", 1))
        return Node("coll", (lk,), [ch])
    if r < 0.72:
        return Node("opt", (), [sub(need_delim)])
    if r < 0.84:
        ip = rng.choice(INT_PRIMS)
        c = rng.random()
        if c < 0.25:
            ad = ("bool",)
        elif c < 0.65:
            ad = ("enum", rng.random() < 0.4, gen_tbl(rng))
        else:
            ad = ("flag", gen_tbl(rng, flags=True))
        return Node("adapter", (ad,), [Node("prim", ip)])
    # typed bytes
    c = rng.random()
    en = rng.random() < 0.3
    ct = rng.random() < 0.85
    for _ in range(8):
        ch = sub(False)
        if not en or min_size(ch) > 0 or rng.random() < sloppy:
            break
    else:
        ch = Node("prim", ("u", 2))
    if c < 0.45 or (need_delim and c < 0.6):
        tk = ("array", rng.random() < 0.25, rng.choice((1, 1, 2, 4)))
    elif c < 0.7 or need_delim:
        fs = fixed_size(ch)
        if fs is None or rng.random() < 0.1:
            fs = rng.choice((0, 1, 2, 4, 5))
        tk = ("fixed", fs)
    elif c < 0.93:
        tk = ("greedy",)
    else:
        tk = ("term", rng.choice(TERM_SETS), rng.random() < 0.6)
    return Node("typed", (tk, en, ct), [ch])


QUANT_IDS = [0, 1, 2, 3, 4, 5]
FIXED_FOR = {("u", 2): [8, 9], ("u", 1): [10, 12], ("u", 4): [11]}


def gen_opaque(rng):
    if rng.random() < 0.6:
        return Node("adapter", (("opaque", rng.choice(QUANT_IDS)),), [Node("prim", rng.choice([("u", 1), ("u", 2), ("u", 2), ("s", 2), ("u", 4)]))])
    ip = rng.choice(list(FIXED_FOR))
    return Node("adapter", (("opaque", rng.choice(FIXED_FOR[ip])),), [Node("prim", ip)])


def gen_coord(rng):
    name = rng.choice(["Vector3", "Vector4", "Vector3D", "Vector3U16", "Vector4U16", "Vector3U8", "Vector4U8", "Vector2U16",
                       "FixedPointVector3U16"])
    from harness.translate.c08_specs import COORDS
    cnt = COORDS[name]
    if name in ("Vector3", "Vector4"):
        ch = [Node("prim", ("f", 4)) for _ in range(cnt)]
    elif name == "Vector3D":
        ch = [Node("prim", ("f", 8)) for _ in range(cnt)]
    elif name.startswith("FixedPoint"):
        pid = rng.choice([8, 9])
        ch = [Node("adapter", (("opaque", pid),), [Node("prim", ("u", 2))]) for _ in range(cnt)]
    else:
        pid = rng.choice(QUANT_IDS)
        w = 2 if "U16" in name else 1
        ch = [Node("adapter", (("opaque", pid),), [Node("prim", ("u", w))]) for _ in range(cnt)]
    return Node("coord", (name,), ch)


def gen_bitfield(rng):
    w = rng.choice((1, 1, 2, 4))
    total = 8 * w
    shift = rng.random() < 0.75
    ents, used, nm = [], 0, 0
    for _ in range(rng.randrange(1, 5)):
        bits = rng.randrange(1, min(9, total - used + 1)) if total - used >= 1 else 0
        if bits == 0:
            break
        fa = None
        c = rng.random()
        if shift and c < 0.2:
            fa = ("bool",)
        elif shift and c < 0.4:
            vals = rng.sample(range(0, 1 << bits), min(rng.randrange(1, 4), 1 << bits))
            names = rng.sample(range(0, 9), len(vals))
            fa = ("enum", rng.random() < 0.3, tuple(zip(names, vals)))
        elif shift and c < 0.55:
            bs = rng.sample(range(bits), min(rng.randrange(1, 3), bits))
            names = rng.sample(range(0, 9), len(bs))
            fa = ("flag", tuple((n_, 1 << b) for n_, b in zip(names, bs)))
        ents.append((nm, bits, fa))
        nm += 1
        used += bits
    return Node("adapter", (("bitfield", shift, tuple(ents)),), [Node("prim", ("u", w))])


def gen_flag_template(rng, depth, need_delim, sloppy, stage2):
    """a Template whose first member is a flags field and whose later members are OptionalFlagged on it"""
    sub = lambda nd: gen_spec(rng, depth - 1, nd, sloppy, stage2, True)
    tbl = gen_tbl(rng, flags=True)
    w = 4 if any(z >= 256 for _, z in tbl) else rng.choice((1, 2, 4))
    n = rng.choice((2, 3, 4))
    names = rng.sample(range(0, 8), n)
    plain = rng.random() < 0.25
    chs = [Node("prim", ("u", w)) if plain else Node("adapter", (("flag", tbl),), [Node("prim", ("u", w))])]
    for i in range(1, n):
        nd = True if i < n - 1 else need_delim
        c = sub(nd)
        if rng.random() < 0.7:
            mask = rng.choice([z for _, z in tbl])
            c = Node("optflagged", (names[0], None if plain else tbl, mask), [c])
        chs.append(c)
    return Node("template", (tuple(names), rng.random() < 0.5), chs)


def gen_ctx_template(rng, depth, need_delim, sloppy, stage2):
    """a Template whose first member is an int-valued key field and whose later members are ContextSwitch /
    ContextAdapter options selected by it"""
    sub = lambda nd: gen_spec(rng, depth - 1, nd, sloppy, stage2, True)
    n = rng.choice((2, 3))
    names = rng.sample(range(0, 8), n)
    keyvals = rng.sample(range(0, 6), 3)
    if rng.random() < 0.5:
        first = Node("prim", ("u", 1))
    else:
        first = Node("adapter", (("enum", False, tuple(zip(rng.sample(range(0, 9), 3), keyvals))),), [Node("prim", ("u", 1))])
    chs = [first]
    for i in range(1, n):
        nd = True if i < n - 1 else need_delim
        if rng.random() < 0.5:
            keys = list(rng.sample(keyvals, rng.randrange(1, 3)))
            if rng.random() < 0.7:
                keys.append(None)
            chs.append(Node("ctxswitch", (names[0], tuple(keys)), [sub(nd) for _ in keys]))
        else:
            ip = rng.choice([("u", 1), ("u", 2), ("s", 2), ("u", 4)])
            opts = []
            for kk in rng.sample(keyvals, rng.randrange(1, 3)) + ([None] if rng.random() < 0.7 else []):
                c = rng.random()
                ad = None if c < 0.3 else (("bool",) if c < 0.45 else (("enum", rng.random() < 0.3, gen_tbl(rng)) if c < 0.75
                                                                     else ("flag", gen_tbl(rng, flags=True))))
                opts.append((kk, ad))
            chs.append(Node("ctxadapter", (names[0], tuple(opts)), [Node("prim", ip)]))
    return Node("template", (tuple(names), rng.random() < 0.3), chs)


def gen_flagswitch(rng, depth, need_delim, sloppy, stage2):
    sub = lambda nd: gen_spec(rng, depth - 1, nd, sloppy, stage2, True)
    tbl = gen_tbl(rng, flags=True)
    w = 4 if any(z >= 128 for _, z in tbl) else rng.choice((1, 2, 4))
    choices = rng.sample(list(tbl), rng.randrange(1, len(tbl) + 1))
    choices.sort(key=lambda c: list(tbl).index(c))
    chs = [sub(True if i < len(choices) - 1 else need_delim) for i in range(len(choices))]
    return Node("flagswitch", (tbl, rng.random() < 0.2, w, tuple(choices)), chs)


def ctx_choice(n: Node, ctxd):
    from harness.translate import c08_specs as S
    try:
        return S.ctx_choice(n, ctxd)
    except S.Shape as ex:
        raise NoValue(str(ex))


def gen_wave2(rng, depth, need_delim, sloppy, stage2):
    sub = lambda nd: gen_spec(rng, depth - 1, nd, sloppy, stage2, True)
    r = rng.random()
    if r < 0.2:
        return gen_opaque(rng)
    if r < 0.4:
        return gen_coord(rng)
    if r < 0.58:
        return gen_bitfield(rng)
    if r < 0.75:
        n = rng.choice((1, 2, 3))
        names = tuple(rng.sample(range(0, 8), n))
        return Node("dataclass", (names,), [sub(True if i < n - 1 else need_delim) for i in range(n)])
    if r < 0.85:
        return gen_flag_template(rng, depth, need_delim, sloppy, stage2)
    if r < 0.94:
        return gen_ctx_template(rng, depth, need_delim, sloppy, stage2)
    return gen_flagswitch(rng, depth, need_delim, sloppy, stage2)


def gen_stage2(rng, depth, need_delim, sloppy, stage2):
    sub = lambda nd: gen_spec(rng, depth - 1, nd, sloppy, stage2)
    r = rng.random()
    if need_delim and r < 0.6:
        return None
    if r < 0.3:
        return Node("ifpresent", (), [sub(False)])
    if r < 0.6:
        # branches keyed by their exact size, optional default
        chs, keys = [], []
        for _ in range(rng.randrange(1, 4)):
            c = sub(False)
            fs = fixed_size(c)
            if fs is None or fs in keys:
                continue
            chs.append(c)
            keys.append(fs)
        if rng.random() < 0.5 or not chs:
            chs.append(sub(False))
            keys.append(None)
        return Node("lenswitch", (tuple(keys),), chs)
    tbl = gen_tbl(rng)
    vals = []
    for _, z in tbl:
        if z not in vals:
            vals.append(z)
    sg, w = rng.random() < 0.3, rng.choice((1, 2, 4))
    return Node("enumswitch", (tbl, rng.random() < 0.5, sg, w, tuple(vals)),
                [sub(True if need_delim else rng.random() < 0.5) for _ in vals])


def small_leaves():
    out = [Node("prim", p) for p in INT_PRIMS] + [Node("prim", ("f", 4)), Node("prim", ("f", 8))]
    out += [Node("bytearray", (False, 1)), Node("bytearray", (True, 2)), Node("bytesfixed", (2,)), Node("bytesfixed", (0,)),
            Node("bytesgreedy"), Node("bytesterm", ((0,), True, True)), Node("bytesterm", ((10, 13), False, True)),
            Node("str", (False, 1, True)), Node("str", (False, 2, False)), Node("strfixed", (3,)),
            Node("cstr", ((0,), True, True)), Node("cstr", ((0,), True, False)), Node("cstr", ((10,), False, True)),
            Node("uuid"), Node("null")]
    return out


def clone(n: Node) -> Node:
    return Node(n.k, n.a, [clone(c) for c in n.ch])


def exhaustive_specs(level):
    """every spec of depth <= 2 over the small leaf alphabet and one instance of each unary / binary combinator"""
    L = small_leaves()
    yield from (clone(x) for x in L)
    for x in L:
        yield Node("opt", (), [clone(x)])
        yield Node("coll", (("prefixed", False, 1),), [clone(x)])
        yield Node("coll", (("fixed", 2),), [clone(x)])
        yield Node("coll", (("greedy",),), [clone(x)])
        yield Node("typed", (("array", False, 1), False, True), [clone(x)])
        yield Node("typed", (("greedy",), True, True), [clone(x)])
        fs = fixed_size(x)
        yield Node("typed", (("fixed", fs if fs is not None else 3), False, True), [clone(x)])
        yield Node("tuple", (), [clone(x)])
        yield Node("template", ((0,), False), [clone(x)])
    for x, y in itertools.product(L, L):
        yield Node("tuple", (), [clone(x), clone(y)])
    if level >= 2:
        for x, y in itertools.product(L, L):
            yield Node("template", ((1, 0), True), [Node("opt", (), [clone(x)]), clone(y)])
    for ip in INT_PRIMS:
        yield Node("adapter", (("bool",),), [Node("prim", ip)])
        yield Node("adapter", (("enum", False, ((0, 0), (1, 1), (2, 1), (3, 5))),), [Node("prim", ip)])
        yield Node("adapter", (("enum", True, ((0, 0), (1, 1), (3, 5))),), [Node("prim", ip)])
        yield Node("adapter", (("flag", ((0, 1), (1, 4), (2, 64))),), [Node("prim", ip)])


# ---------------------------------------------------------------- values

def gen_int(rng, lo, hi):
    r = rng.random()
    if r < 0.35:
        return rng.choice([x for x in (lo, hi, 0, 1, -1, lo + 1, hi - 1, 127, 128, 255, 256) if lo <= x <= hi])
    if r < 0.6:
        return rng.randrange(max(lo, -5), min(hi, 300) + 1)
    return rng.randrange(lo, hi + 1)


def gen_float(rng, w):
    r = rng.random()
    if r < 0.3:
        return rng.choice((0.0, -0.0, 1.0, -1.5, float("inf"), float("-inf"), 0.1 if w == 8 else 0.5,
                           bits_f(1, w), bits_f((1 << (8 * w - 1)) | 1, w)))
    while True:
        b = rng.getrandbits(8 * w)
        if not is_nan_bits(b, w):
            return bits_f(b, w)


def gen_bytes(rng, n=None, avoid=()):
    if n is None:
        n = rng.choice((0, 1, 2, 3, 5, 8))
    pool = [x for x in (0, 1, 10, 13, 32, 59, 65, 127, 128, 255) if x not in avoid]
    return bytes(rng.choice(pool) if rng.random() < 0.5 else rng.choice([x for x in range(256) if x not in avoid])
                 for _ in range(n))


def gen_str(rng, maxbytes, avoid=(), no_trail0=True):
    out = ""
    for _ in range(rng.choice((0, 1, 2, 3, 4))):
        c = rng.choice(ALPHABET)
        if any(b in avoid for b in c.encode("utf8")):
            continue
        if len((out + c).encode("utf8")) > maxbytes:
            break
        out += c
    if no_trail0:
        out = out.rstrip("\x00")
    return out


def flag_int(n_opt: Node, ctxd):
    """OptionalFlagged._normalize_flag_val (of the REAL object) on the dict generated so far"""
    from harness.translate import c08_specs as S
    if ctxd is None:
        raise NoValue("no enclosing template")
    try:
        return int(S.build(n_opt)._normalize_flag_val(ctxd))
    except Exception:
        raise NoValue("flag field missing")


def gen_value(n: Node, pod: bool, rng, ctxd=None):
    """a value of the derived domain of the spec in the given mode (canonical representation)"""
    se, dt = mods()
    k, a = n.k, n.a
    if k == "optflagged":
        if flag_int(n, ctxd) & a[2]:
            return gen_value(n.ch[0], pod, rng, ctxd)
        return None
    if k == "ctxswitch":
        return gen_value(n.ch[ctx_choice(n, ctxd)], pod, rng, ctxd)
    if k == "ctxadapter":
        ad = a[1][ctx_choice(n, ctxd)][1]
        c = n.ch[0]
        lo, hi = ip_range(c.a[0] == "s", c.a[1])
        if ad is None:
            return gen_int(rng, lo, hi)
        return gen_sadapter_int(ad, lo, hi, pod, rng)
    if k == "flagswitch":
        from harness.translate import c08_specs as S
        tbl, sg, w, choices = a
        cls = S.flag_cls(tbl)
        out = {}
        for (nm, z), c in zip(choices, n.ch):
            if rng.random() < 0.6:
                out[("F%d" % nm) if pod else cls["F%d" % nm]] = gen_value(c, pod, rng, ctxd)
        return out
    if k == "coord":
        comps = [gen_value(c, pod, rng) for c in n.ch]
        if pod:
            return tuple(comps)
        return dt.Quaternion(*comps) if n.x.get("quat") else getattr(se, a[0]).COORD_CLS(*comps)
    if k == "dataclass":
        from harness.translate import c08_specs as S
        out = {}
        for kk, c in zip(S.tkeys(n), n.ch):
            out[kk] = gen_value(c, pod, rng, out)
        return out if pod else S._make_dataclass(n, [S.build(c) for c in n.ch])(**out)
    if k == "prim":
        if a[0] == "f":
            return gen_float(rng, a[1])
        return gen_int(rng, *ip_range(a[0] == "s", a[1]))
    if k == "bytearray":
        return gen_bytes(rng)
    if k == "bytesfixed":
        return gen_bytes(rng, a[0])
    if k == "bytesgreedy":
        return gen_bytes(rng)
    if k == "bytesterm":
        return gen_bytes(rng, avoid=a[0])
    if k == "str":
        return gen_str(rng, ip_range(a[0], a[1])[1] - (1 if a[2] else 0))
    if k == "strfixed":
        return gen_str(rng, a[0])
    if k == "cstr":
        return gen_str(rng, 64, avoid=a[0], no_trail0=False)
    if k == "uuid":
        u = dt.UUID(bytes=rng.choice((bytes(16), gen_bytes(rng, 16), bytes([255]) * 16)))
        return str(u) if pod else u
    if k == "null":
        return None
    if k == "tuple":
        return [gen_value(c, pod, rng) for c in n.ch]
    if k == "template":
        from harness.translate import c08_specs as S
        out = {}
        for kk, c in zip(S.tkeys(n), n.ch):
            v = gen_value(c, pod, rng, out)
            if c.k in ("opt", "optflagged") and a[1] and v is None:
                continue
            out[kk] = v
        return out
    if k == "coll":
        lk = a[0]
        cnt = lk[1] if (lk[0] == "fixed" and lk[1] != 0) else rng.choice((0, 1, 2, 3))
        if lk[0] == "prefixed":
            cnt = min(cnt, ip_range(lk[1], lk[2])[1])
        return [gen_value(n.ch[0], pod, rng) for _ in range(cnt)]
    if k == "opt":
        return None if rng.random() < 0.3 else gen_value(n.ch[0], pod, rng, ctxd)
    if k == "typed":
        if a[1] and rng.random() < 0.3:
            return None
        return gen_value(n.ch[0], pod, rng, ctxd)
    if k == "ifpresent":
        return None if rng.random() < 0.3 else gen_value(n.ch[0], pod, rng, ctxd)
    if k == "adapter":
        return gen_adapter_value(n, pod, rng)
    if k == "lenswitch":
        i = rng.randrange(len(n.ch))
        return (a[0][i], gen_value(n.ch[i], pod, rng))     # tag fixed up by the caller once the size is known
    if k == "enumswitch":
        tbl, strict, sg, w, keys = a
        i = rng.randrange(len(n.ch))
        z = keys[i]
        cls_names = {}
        for nm, zz in tbl:
            cls_names.setdefault(zz, "E%d" % nm)
        tag = cls_names[z] if pod else z
        return (tag, gen_value(n.ch[i], pod, rng))
    raise ValueError(k)


class NoValue(Exception):
    pass


HYPOTHESIS_FAILS = [0]


def gen_sadapter_int(ad, lo, hi, pod, rng):
    """(python value, ok) for a Bool / IntEnum / IntFlag adapter whose wire int lies in lo..hi"""
    from harness.translate.c08_specs import flag_cls
    _, dt = mods()
    if ad[0] == "bool":
        return rng.random() < 0.5
    if ad[0] == "enum":
        strict, tbl = ad[1], ad[2]
        canon = {}
        for nm, z in tbl:
            canon.setdefault(z, nm)
        members = [z for z in canon if lo <= z <= hi]
        if members and (strict or rng.random() < 0.7):
            z = rng.choice(members)
            return "E%d" % canon[z] if pod else z
        if strict:
            raise NoValue("no member fits")
        for _ in range(20):
            z = gen_int(rng, lo, hi)
            if z not in canon:
                return z
        raise NoValue("no value found")
    z = gen_int(rng, lo, hi)
    if rng.random() < 0.3:
        # aim at the bits of the class's composite members (see c08_specs.flag_cls): inside / across the unnamed mask
        from harness.translate.c08_specs import flag_extras
        for _nm, mv in flag_extras(ad[1]):
            if lo <= (z | mv) <= hi and rng.random() < 0.5:
                z = (z | mv) if rng.random() < 0.5 else (z | (mv & -mv))
    if not pod:
        return z
    # plain-data form computed HERE (not by the code under test): names of the canonical single-bit members that are set, in
    # definition order, then one int holding every other bit
    named = 0
    names = []
    for nm, fv in ad[1]:
        named |= fv
        if z & fv:
            names.append("F%d" % nm)
    left = z & ~named
    return tuple(names) + ((left,) if left else ())


def gen_decoded(n, pod, rng):
    """registry adapters: a value of the domain = what the REAL adapter decodes from a wire int of the child's domain"""
    from harness.translate import c08_specs as S
    ad = n.a[0]
    obj = S.build(n)
    p = S._prim_of(n)
    lo, hi = ip_range(p.a[0] == "s", p.a[1])
    if ad[0] == "bitfield":
        total = sum(e[1] for e in ad[2])
        hi = min(hi, (1 << total) - 1)
        lo = 0
    cands = None
    if ad[0] == "enum":
        members = [z for _, z in ad[2] if lo <= z <= hi]
        if ad[1] or (members and rng.random() < 0.7):
            cands = members
            if not cands:
                raise NoValue("no member fits")
    for _ in range(12):
        z = rng.choice(cands) if cands else gen_int(rng, lo, hi)
        try:
            return obj.decode(z, ctx=None, pod=pod)
        except Exception:
            continue
    raise NoValue("adapter decodes nothing")


def gen_adapter_value(n, pod, rng):
    ad = n.a[0]
    c = n.ch[0]
    if ad[0] != "opaque" and (n.x.get("names") or n.x.get("bkeys")):
        return gen_decoded(n, pod, rng)
    if ad[0] == "opaque":
        from harness.translate import c08_specs as S
        p = S._prim_of(n)
        lo, hi = ip_range(p.a[0] == "s", p.a[1])
        for _ in range(8):
            z = gen_int(rng, lo, hi)
            v = S.opaque_value(n, z)
            try:
                if S.opaque_int(n, v) == z:
                    return v
            except S.Shape:
                pass
            HYPOTHESIS_FAILS[0] += 1       # encode(decode(z)) != z: outside the C10 hypothesis, not used
        raise NoValue("lossless hypothesis fails")
    if ad[0] == "bitfield":
        out, cur = {}, 0
        for nm, bits, fa in ad[2]:
            mask = (1 << bits) - 1
            if fa is None:
                x = rng.choice((0, mask, rng.randrange(0, mask + 1)))
                out["b%d" % nm] = x if ad[1] else x << cur
            else:
                out["b%d" % nm] = gen_sadapter_int(fa, 0, 1 if fa[0] == "bool" else mask, pod, rng)
            cur += bits
        return out
    lo, hi = ip_range(c.a[0] == "s", c.a[1]) if c.k == "prim" and c.a[0] != "f" else (0, 255)
    if ad[0] == "bool":
        return rng.random() < 0.5
    if ad[0] == "enum":
        strict, tbl = ad[1], ad[2]
        canon = {}
        for nm, z in tbl:
            canon.setdefault(z, nm)
        members = [z for z in canon if lo <= z <= hi]
        if members and (strict or rng.random() < 0.7):
            z = rng.choice(members)
            return "E%d" % canon[z] if pod else z
        if strict:
            raise NoValue("no member of the strict enum fits the primitive: empty domain")
        for _ in range(20):
            z = gen_int(rng, lo, hi)
            if z not in canon:
                return z
        raise NoValue("no value found")
    tbl = ad[1]
    z = gen_int(rng, lo, hi) if rng.random() < 0.5 else rng.randrange(max(lo, -4), min(hi, 260) + 1)
    if not pod:
        return z
    _, dt = mods()
    from harness.translate.c08_specs import flag_cls
    return dt.flags_to_pod(flag_cls(tbl), z)


def gen_bad(n: Node, pod: bool, rng, budget=70000):
    """a value that violates exactly one length / range limit somewhere in the tree (everything else
    in the domain); None when this spec has no such limit (or only an impractically large one)"""
    k, a = n.k, n.a
    if k == "prim":
        if a[0] == "f":
            return None
        lo, hi = ip_range(a[0] == "s", a[1])
        return rng.choice((lo - 1, hi + 1, hi + 1 + rng.randrange(0, 1000), lo - 1 - rng.randrange(0, 1000)))
    if k == "bytearray":
        hi = ip_range(*a)[1]
        return None if hi + 1 > budget else gen_bytes(rng, hi + 1)
    if k == "bytesfixed":
        m = rng.choice([x for x in (a[0] - 1, a[0] + 1, a[0] + 5) if x >= 0])
        return gen_bytes(rng, m)
    if k == "str":
        hi = ip_range(a[0], a[1])[1]
        if hi + 1 > budget:
            return None
        return "a" * (hi + (0 if a[2] else 1))
    if k == "strfixed":
        return "a" * (a[0] + 1) if rng.random() < 0.5 else "a" * max(0, a[0] - 1) + "é"
    if k == "tuple":
        if not n.ch or rng.random() < 0.25:
            good = [gen_value(c, pod, rng) for c in n.ch]
            return good + [0] if rng.random() < 0.5 or not good else good[:-1]
        return _bad_in_children(n, pod, rng, budget, lambda vals: vals)
    if k == "template":
        def mk(vals):
            from harness.translate import c08_specs as S
            return dict(zip(S.tkeys(n), vals))
        return _bad_in_children(n, pod, rng, budget, mk)
    if k == "coll":
        lk = a[0]
        c = n.ch[0]
        r = rng.random()
        if lk[0] == "fixed" and lk[1] != 0 and r < 0.5:
            cnt = rng.choice([x for x in (lk[1] - 1, lk[1] + 1) if x >= 0])
            return [gen_value(c, pod, rng) for _ in range(cnt)]
        if lk[0] == "prefixed" and r < 0.5:
            hi = ip_range(lk[1], lk[2])[1]
            if hi + 1 <= 300:
                return [gen_value(c, pod, rng) for _ in range(hi + 1)]
        b = gen_bad(c, pod, rng, budget)
        if b is None:
            return None
        cnt = lk[1] if (lk[0] == "fixed" and lk[1] != 0) else rng.choice((1, 2))
        vals = [gen_value(c, pod, rng) for _ in range(cnt)]
        vals[rng.randrange(cnt)] = b
        return vals
    if k == "dataclass":
        from harness.translate import c08_specs as S
        def mkd(vals):
            d = dict(zip(S.tkeys(n), vals))
            return d if pod else S._make_dataclass(n, [S.build(c) for c in n.ch])(**d)
        return _bad_in_children(n, pod, rng, budget, mkd)
    if k in ("coord", "optflagged"):
        return None
    if k in ("opt", "ifpresent"):
        return gen_bad(n.ch[0], pod, rng, budget)
    if k == "typed":
        return gen_bad(n.ch[0], pod, rng, budget)
    if k == "adapter":
        c = n.ch[0]
        ad = a[0]
        if ad[0] == "bitfield":
            if not ad[1]:
                return None
            from harness.translate import c08_specs as S
            import dataclasses
            good = gen_adapter_value(n, pod, rng)
            if dataclasses.is_dataclass(good):
                good = {f.name: getattr(good, f.name) for f in dataclasses.fields(good)}
            plain = [(e, kk) for e, kk in zip(ad[2], S.bf_keys(n)) if e[2] is None]
            if not plain:
                return None
            (nm, bits, _), kk = rng.choice(plain)
            good[kk] = (1 << bits) + rng.randrange(0, 3)
            return good
        if ad[0] == "opaque":
            return None
        if c.k != "prim" or c.a[0] == "f" or pod or ad[0] == "bool":
            return None
        lo, hi = ip_range(c.a[0] == "s", c.a[1])
        return rng.choice((lo - 1, hi + 1))
    return None


def _bad_in_children(n, pod, rng, budget, mk):
    idx = list(range(len(n.ch)))
    rng.shuffle(idx)
    for i in idx:
        b = gen_bad(n.ch[i], pod, rng, budget)
        if b is not None:
            vals = [gen_value(c, pod, rng) for c in n.ch]
            vals[i] = b
            return mk(vals)
    return None


# ---------------------------------------------------------------- dict-valued values: insertion order / key form variants
#
# A mapping-valued domain value (Template dict, Dataclass / BitfieldDataclass in dict form, BitField dict, FlagSwitch dict)
# is the same value whatever its insertion order; FlagSwitch and BitfieldDataclass / Dataclass writers also accept both key /
# container forms (flag member or member name as key; instance or plain dict) whatever the mode of the later read.  The model
# value is order-insensitive (Spec.lookup on every dict access; the adapter c08_specs.to_sx canonicalises to declaration
# order), the real code has to be as well.  A variant descriptor is a string
#     <order>[+names|+members|+mixed][+dict]
# with <order> = same | rev | shuf:<seed> | perm:<i,j,..> (applied to dicts with that many keys, the others are reversed).
# Sequences (tuples, lists, collections, pod flag tuples) keep their order.

import random as _random


class _Reorder:
    def __init__(self, variant: str):
        parts = variant.split("+")
        self.order = parts[0]
        self.opts = set(parts[1:])
        self.rng = _random.Random(int(self.order[5:])) if self.order.startswith("shuf:") else None
        self.perm_ix = [int(i) for i in self.order[5:].split(",")] if self.order.startswith("perm:") else None
        self.changed = False
        self.flip = 0

    def perm(self, items):
        if len(items) < 2 or self.order == "same":
            return items
        if self.rng is not None:
            out = list(items)
            self.rng.shuffle(out)
        elif self.perm_ix is not None and len(self.perm_ix) == len(items):
            out = [items[i] for i in self.perm_ix]
        else:
            out = items[::-1]
        if any(a[0] is not b[0] and a[0] != b[0] for a, b in zip(out, items)):
            self.changed = True
        return out

    def key(self, member, cur):
        """key form of a FlagSwitch entry"""
        if "names" in self.opts:
            new = member.name
        elif "members" in self.opts:
            new = member
        elif "mixed" in self.opts:
            self.flip += 1
            new = member.name if (self.flip % 2) else member
        else:
            return cur
        if type(new) is not type(cur):
            self.changed = True
        return new


def _dc_items(v):
    import dataclasses
    return [(f.name, getattr(v, f.name)) for f in dataclasses.fields(v)]


def _is_dc(v):
    import dataclasses
    return dataclasses.is_dataclass(v) and not isinstance(v, type)


def _reorder(R: _Reorder, n: Node, v, ctxd=None):
    from harness.translate import c08_specs as S
    k, a = n.k, n.a
    if v is None:
        return v
    if k == "template":
        if not isinstance(v, dict):
            return v
        by = dict(zip(S.tkeys(n), n.ch))
        return dict(R.perm([(kk, _reorder(R, by[kk], x, v) if kk in by else x) for kk, x in v.items()]))
    if k == "dataclass":
        by = dict(zip(S.tkeys(n), n.ch))
        if isinstance(v, dict):
            return dict(R.perm([(kk, _reorder(R, by[kk], x, v) if kk in by else x) for kk, x in v.items()]))
        if not _is_dc(v):
            return v
        d = dict(_dc_items(v))
        items = [(kk, _reorder(R, by[kk], x, d) if kk in by else x) for kk, x in d.items()]
        if "dict" in R.opts:
            R.changed = True
            return dict(R.perm(items))
        return type(v)(**dict(items))
    if k == "flagswitch":
        if not isinstance(v, dict):
            return v
        cls = S.flag_cls(a[0])
        items = []
        for kk, x in v.items():
            for (nm, z), c in zip(a[3], n.ch):
                m = cls["F%d" % nm]
                if kk == m.name or (not isinstance(kk, str) and kk == m):
                    x = _reorder(R, c, x, ctxd)
                    kk = R.key(m, kk)
                    break
            items.append((kk, x))
        return dict(R.perm(items))
    if k == "adapter":
        if a[0][0] != "bitfield":
            return v
        if isinstance(v, dict):
            return dict(R.perm(list(v.items())))
        if _is_dc(v) and "dict" in R.opts:
            R.changed = True
            return dict(R.perm(_dc_items(v)))
        return v
    if k in ("tuple", "coord"):
        if k == "coord" or not isinstance(v, (list, tuple)) or len(v) != len(n.ch):
            return v
        return type(v)(_reorder(R, c, x) for c, x in zip(n.ch, v))
    if k == "coll":
        if not isinstance(v, (list, tuple)):
            return v
        return type(v)(_reorder(R, n.ch[0], x) for x in v)
    if k in ("opt", "ifpresent", "optflagged", "typed"):
        return _reorder(R, n.ch[0], v, ctxd)
    if k == "ctxswitch":
        return _reorder(R, n.ch[ctx_choice(n, ctxd)], v, ctxd)
    if k == "lenswitch":
        if type(v) is not tuple or len(v) != 2:
            return v
        tag = v[0]
        idx = list(a[0]).index(tag) if tag in a[0] else (list(a[0]).index(None) if None in a[0] else None)
        return v if idx is None else (tag, _reorder(R, n.ch[idx], v[1]))
    if k == "enumswitch":
        if type(v) is not tuple or len(v) != 2:
            return v
        tag = v[0]
        z = dict(("E%d" % nm, zz) for nm, zz in reversed(a[0])).get(tag) if isinstance(tag, str) else int(tag)
        if z not in a[4]:
            return v
        return (tag, _reorder(R, n.ch[list(a[4]).index(z)], v[1]))
    return v


def reorder(n: Node, v, variant: str):
    """-> (the same value with every mapping rebuilt in another insertion order / key form, changed?)"""
    R = _Reorder(variant)
    out = _reorder(R, n, v)
    return out, R.changed


def reorder_sx(x, variant: str):
    """the same permutation idea on a parsed MODEL value term: entries of every ( d ... ) in another order"""
    R = _Reorder(variant.split("+")[0])

    def go(t):
        if not isinstance(t, list) or not t:
            return t
        if t[0] == "d":
            return ["d"] + R.perm([[kv[0], go(kv[1])] for kv in t[1:]])
        if t[0] == "l":
            return ["l"] + [go(i) for i in t[1:]]
        return t
    return go(x)


def has_mapping(n: Node) -> bool:
    for x in n.walk():
        if x.k in ("template", "dataclass", "flagswitch") or (x.k == "adapter" and x.a[0][0] == "bitfield"):
            return True
    return False


def variants_for(n: Node, rng, count=2):
    """variant descriptors worth trying for values of this spec"""
    if not has_mapping(n):
        return []
    fs = any(x.k == "flagswitch" for x in n.walk())
    dc = any(x.k == "dataclass" or (x.k == "adapter" and x.a[0][0] == "bitfield" and "data_cls" in x.x) for x in n.walk())
    out = []
    for i in range(count):
        v = "rev" if i == 0 else "shuf:%d" % rng.randrange(1 << 30)
        if fs:
            v += rng.choice(("", "+names", "+members", "+mixed"))
        if dc and rng.random() < 0.5:
            v += "+dict"
        out.append(v)
    return out


# ---------------------------------------------------------------- mapping-heavy spec trees

def gen_flagswitch2(rng, depth, need_delim):
    """FlagSwitch with >= 2 choices whenever the table allows"""
    sub = lambda nd: gen_spec(rng, depth - 1, nd, 0.0, 0.0, True)
    while True:
        tbl = gen_tbl(rng, flags=True)
        if len(tbl) >= 2:
            break
    w = 4 if any(z >= 128 for _, z in tbl) else rng.choice((1, 2, 4))
    choices = rng.sample(list(tbl), rng.randrange(2, len(tbl) + 1))
    if rng.random() < 0.7:
        choices.sort(key=lambda c: list(tbl).index(c))       # otherwise: declared in another order than the flag class
    chs = [sub(True if i < len(choices) - 1 else need_delim) for i in range(len(choices))]
    return Node("flagswitch", (tbl, rng.random() < 0.2, w, tuple(choices)), chs)


def gen_dicty(rng, depth=2, need_delim=False):
    """spec trees around mapping-valued combinators (FlagSwitch, Template, Dataclass, BitField, flag / context templates)"""
    r = rng.random()
    sub = lambda nd: gen_spec(rng, depth - 1, nd, 0.0, 0.0, True)
    if depth > 1 and r < 0.30:
        inner = gen_dicty(rng, depth - 1, True)
        c = rng.random()
        if c < 0.3:
            return Node("coll", (("prefixed", False, 1),), [inner])
        if c < 0.45:
            return Node("opt", (), [inner])
        if c < 0.6:
            return Node("typed", (("array", False, rng.choice((1, 2))), False, True), [inner])
        if c < 0.8:
            return Node("tuple", (), [inner, gen_dicty(rng, depth - 1, need_delim)])
        names = tuple(rng.sample(range(0, 8), 2))
        return Node("template", (names, rng.random() < 0.4), [inner, gen_dicty(rng, depth - 1, need_delim)])
    if r < 0.62:
        return gen_flagswitch2(rng, depth, need_delim)
    if r < 0.72:
        n = rng.choice((2, 3, 4))
        names = tuple(rng.sample(range(0, 8), n))
        return Node("template", (names, rng.random() < 0.4), [sub(True if i < n - 1 else need_delim) for i in range(n)])
    if r < 0.80:
        n = rng.choice((2, 3))
        names = tuple(rng.sample(range(0, 8), n))
        return Node("dataclass", (names,), [sub(True if i < n - 1 else need_delim) for i in range(n)])
    if r < 0.88:
        for _ in range(20):
            b = gen_bitfield(rng)
            if len(b.a[0][2]) >= 2:
                return b
        return b
    if r < 0.94:
        return gen_flag_template(rng, depth, need_delim, 0.0, 0.0)
    return gen_ctx_template(rng, depth, need_delim, 0.0, 0.0)


def perm_scope_specs():
    """small fixed scope for the exhaustive insertion-order sweep: (name, Node)"""
    P = lambda k, w: Node("prim", (k, w))
    tbl = ((0, 1), (1, 2), (2, 4))
    tbl2 = ((3, 1), (1, 4), (5, 64))
    out = [
        ("flagswitch-fixed-widths", Node("flagswitch", (tbl, False, 1, tbl), [P("u", 1), P("u", 2), P("u", 4)])),
        ("flagswitch-variable-widths", Node("flagswitch", (tbl2, False, 2, tbl2), [
            Node("cstr", ((0,), True, True)), Node("coll", (("prefixed", False, 1),), [P("u", 2)]), Node("bytearray", (False, 1))])),
        ("flagswitch-declared-out-of-class-order", Node("flagswitch", (tbl, True, 4, ((2, 4), (0, 1), (1, 2))),
                                                         [P("s", 2), Node("str", (False, 1, True)), P("u", 1)])),
        ("template-3", Node("template", ((2, 0, 5), False), [P("u", 1), P("u", 2), Node("cstr", ((0,), True, True))])),
        ("template-skip-missing", Node("template", ((1, 4, 2), True), [Node("opt", (), [P("u", 2)]), P("s", 4),
                                                                      Node("opt", (), [Node("str", (False, 1, False))])])),
        ("dataclass-3", Node("dataclass", ((0, 1, 2),), [P("u", 2), Node("bytearray", (False, 1)), P("u", 4)])),
        ("bitfield-3", Node("adapter", (("bitfield", True, ((0, 3, None), (1, 4, None), (2, 1, ("bool",)))),), [P("u", 1)])),
        ("collection-of-flagswitch", Node("coll", (("prefixed", False, 1),), [
            Node("flagswitch", (tbl, False, 1, tbl), [P("u", 2), Node("cstr", ((0,), True, True)), P("u", 1)])])),
        ("template-of-flagswitch-and-template", Node("template", ((0, 1, 2), False), [
            Node("flagswitch", (tbl, False, 1, ((0, 1), (2, 4))), [P("u", 4), P("u", 1)]),
            Node("template", ((3, 4), False), [P("u", 1), P("u", 2)]),
            P("u", 2)])),
    ]
    return out


def all_perms(n):
    return [",".join(str(i) for i in p) for p in itertools.permutations(range(n))]


# ---------------------------------------------------------------- aliasing probe

MUTATED = "__mutated__"


def deep_mutate(v, depth=0):
    """modify IN PLACE every mutable container reachable from a decoded value; -> number of containers touched"""
    import dataclasses
    n = 0
    if depth > 12:
        return 0
    try:
        w = object.__getattribute__(v, "__wrapped__") if type(v).__name__ == "Proxy" else v
    except Exception:
        w = v
    v = w
    if isinstance(v, dict):
        for x in list(v.values()):
            n += deep_mutate(x, depth + 1)
        v.clear()
        v[MUTATED] = MUTATED
        return n + 1
    if isinstance(v, list):
        for x in list(v):
            n += deep_mutate(x, depth + 1)
        v.clear()
        v.append(MUTATED)
        return n + 1
    if isinstance(v, bytearray):
        v[:] = b"\xee" * (len(v) + 1)
        return 1
    if isinstance(v, (tuple,)):
        for x in v:
            n += deep_mutate(x, depth + 1)
        return n
    if dataclasses.is_dataclass(v) and not isinstance(v, type):
        for f in dataclasses.fields(v):
            n += deep_mutate(getattr(v, f.name), depth + 1)
            try:
                setattr(v, f.name, MUTATED)
                n += 1
            except Exception:
                pass
        return n
    if isinstance(v, (int, float, str, bytes, memoryview)) or v is None:
        return 0
    # recordclass instances (coordinates, TaggedUnion): item assignment
    try:
        ln = len(v)
    except Exception:
        return 0
    for i in range(ln):
        try:
            n += deep_mutate(v[i], depth + 1)
            v[i] = 12345
            n += 1
        except Exception:
            break
    return n
