"""C09 helper: purity / no-aliasing probe of a decode function.

C09's clauses ("every payload the serializer can itself produce survives byte-for-byte ... in both the object form
and the plain-data form") are statements about a payload, not about a payload *and what the process did before*:
they can only hold if decoding is a pure function of (serializer, context values, payload bytes).  The probe below
decides that on the implementation for one payload:

  1. decode P -> v1; deep snapshot (NaN-stable canonical form = immutable tuples; cross-checked against the
     canonical form of copy.deepcopy(v1) where deepcopy is supported); first-pass encoding e1 = encode(v1)
  2. decode P again -> v2: must equal the snapshot and must not share any *mutable* node with v1 (identity)
  3. destructively edit v1 in place as far as its type allows (dict: delete / overwrite / add keys; list: delete,
     overwrite, append; set / bytearray / writable ndarray; dataclass and recordclass instances: setattr on their
     fields; recursively, children first)
  4. v2 (never touched) must still equal the snapshot; decoding P again - through the same serializer object and
     block, and through every `fresh` decoder handed in (fresh Block holding byte-identical data, Block API) - must
     equal the snapshot and re-encode to e1 exactly as the first pass did.

Immutable results (ints, floats, str, bytes, None, enum members, UUIDs, tuples of those, frozen dataclasses of
those) are exempt from 3/4: nothing a caller does to them can be observed by anybody else.  Objects of unknown
classes (e.g. the UNSERIALIZABLE singleton, which legitimately appears inside decoded values) are never touched.

No randomness, no clock.  Used by harness/props/c09.py."""
from __future__ import annotations

import copy
import dataclasses
import enum
import uuid
from typing import Any, Callable, Dict, List, Optional, Tuple

SENT = "__c09_purity_probe__"

CLASS_ALIASED = "decode-result-aliased"
CLASS_IMPURE = "decode-not-pure"

_ATOMS = (type(None), bool, int, float, complex, str, bytes, enum.Enum, uuid.UUID, frozenset, range, type)
_MUTABLE_KINDS = ("dict", "list", "set", "bytearray", "ndarray", "dataclass", "record")


def unwrap(v):
    try:
        import lazy_object_proxy
        if isinstance(v, lazy_object_proxy.Proxy):
            return v.__wrapped__
    except ImportError:
        pass
    return v


def kind(v) -> str:
    if isinstance(v, _ATOMS):
        return "atom"
    if isinstance(v, tuple):
        return "tuple"
    if isinstance(v, dict):
        return "dict"
    if isinstance(v, list):
        return "list"
    if isinstance(v, set):
        return "set"
    if isinstance(v, bytearray):
        return "bytearray"
    try:
        import numpy as np
        if isinstance(v, np.ndarray):
            return "ndarray" if v.flags.writeable and v.size else "atom"
        if isinstance(v, np.generic):
            return "atom"
    except ImportError:
        pass
    if dataclasses.is_dataclass(v):
        return "frozen" if type(v).__dataclass_params__.frozen else "dataclass"
    if hasattr(type(v), "__fields__") and isinstance(getattr(type(v), "__fields__"), tuple):
        try:
            import recordclass
            if isinstance(v, recordclass.dataobject):
                return "record"
        except ImportError:
            pass
    return "opaque"


def _fields(v, k) -> List[str]:
    if k in ("dataclass", "frozen"):
        return [f.name for f in dataclasses.fields(v)]
    return list(type(v).__fields__)


def children(v, k) -> List[Tuple[str, Any]]:
    if k == "dict":
        out = []
        for key in list(v.keys()):
            out.append(("<key %r>" % (key,), key))
            try:
                out.append(("[%r]" % (key,), v[key]))
            except Exception:
                pass
        return out
    if k in ("list", "tuple"):
        return [("[%d]" % i, x) for i, x in enumerate(v)]
    if k in ("dataclass", "frozen", "record"):
        out = []
        for n in _fields(v, k):
            try:
                out.append(("." + n, getattr(v, n)))
            except Exception:
                pass
        return out
    return []


def mutable_nodes(v, path="$", out=None, seen=None, depth=0) -> Dict[int, Tuple[str, str]]:
    """id -> (path, type name) of every node of v a caller could edit in place.  The ids are only comparable
    while v is alive."""
    if out is None:
        out, seen = {}, set()
    if depth > 60:
        return out
    v = unwrap(v)
    if id(v) in seen:
        return out
    k = kind(v)
    if k in ("atom", "opaque"):
        return out
    seen.add(id(v))
    if k in _MUTABLE_KINDS:
        out[id(v)] = (path, type(v).__name__)
    for p, c in children(v, k):
        mutable_nodes(c, path + p, out, seen, depth + 1)
    return out


def mutate(v, seen=None, depth=0) -> int:
    """edit v in place as far as its type allows, children first; returns the number of edits that succeeded"""
    if seen is None:
        seen = set()
    if depth > 60:
        return 0
    v = unwrap(v)
    if id(v) in seen:
        return 0
    k = kind(v)
    if k in ("atom", "opaque"):
        return 0
    seen.add(id(v))
    n = 0
    for _, c in children(v, k):
        n += mutate(c, seen, depth + 1)

    def leaf(x):
        return kind(unwrap(x)) in ("atom", "opaque", "tuple", "frozen")

    if k == "dict":
        for i, key in enumerate(list(v.keys())):
            try:
                if i == 0:
                    del v[key]
                    n += 1
                elif leaf(v[key]):
                    v[key] = SENT
                    n += 1
            except Exception:
                pass
        try:
            v[SENT] = SENT
            n += 1
        except Exception:
            pass
    elif k == "list":
        try:
            if len(v):
                del v[0]
                n += 1
            for i in range(len(v)):
                if leaf(v[i]):
                    v[i] = SENT
                    n += 1
            v.append(SENT)
            n += 1
        except Exception:
            pass
    elif k == "set":
        try:
            v.add(SENT)
            n += 1
        except Exception:
            pass
    elif k == "bytearray":
        try:
            if len(v):
                v[0] ^= 0xFF
            v.append(0xA5)
            n += 1
        except Exception:
            pass
    elif k == "ndarray":
        try:
            x = v.flat[0]
            if v.dtype.kind == "b":
                v.flat[0] = not x
            elif v.dtype.kind in "iu":
                v.flat[0] = int(x) ^ 1
            else:
                v.flat[0] = x + 1
            n += 1
        except Exception:
            pass
    elif k in ("dataclass", "record"):
        for name in _fields(v, k):
            try:
                if leaf(getattr(v, name)):
                    setattr(v, name, SENT)
                    n += 1
            except Exception:
                pass
    return n


def probe(decode: Callable[[], Any], encode: Callable[[Any], Any], canon: Callable[[Any], Any],
          fresh: Tuple[Tuple[str, Callable[[], Any]], ...] = (), full: bool = False, unaccepted=None):
    """-> ("skip", why) | ("immutable", None) | ("ok", edits) | ("bad", (class, clause, detail)).

    decode() / encode(v) run the implementation (decode must force lazy values); `unaccepted(v)` says the serializer
    declined the payload.  With full=False the probe stops at the first failed clause and, when the two results
    already share an object, does not edit anything (so a shared cache in the code under test is left intact);
    with full=True (replay) it goes on to show what a later decode returns after the edit."""
    try:
        v1 = unwrap(decode())
        c1 = canon(v1)
    except Exception as e:
        return "skip", "not accepted: %s" % type(e).__name__
    if unaccepted is not None and unaccepted(v1):
        return "skip", "not accepted"
    nodes1 = mutable_nodes(v1)
    if not nodes1:
        return "immutable", None
    try:
        e1 = encode(v1)
    except Exception as e:
        return "skip", "first pass does not re-encode: %s" % type(e).__name__
    if unaccepted is not None and unaccepted(e1):
        return "skip", "first pass does not re-encode"
    if canon(v1) != c1:
        return "skip", "encode edits its argument"          # not this probe's clause
    try:
        snap = copy.deepcopy(v1)
        if canon(snap) != c1:
            return "skip", "deepcopy is not faithful"
    except Exception:
        snap = None                                          # the canonical form is the snapshot
    # 2. second decode, nothing edited yet
    try:
        v2 = unwrap(decode())
        c2 = canon(v2)
    except Exception as e:
        return "bad", (CLASS_IMPURE, "a payload accepted once is accepted again", "EXC:%s" % type(e).__name__)
    if c2 != c1:
        return "bad", (CLASS_IMPURE, "decoding the same payload twice gives equal values", repr(c2)[:160])
    nodes2 = mutable_nodes(v2)
    shared = [nodes1[i] for i in nodes1 if i in nodes2]
    failed = None
    if shared:
        failed = (CLASS_ALIASED, "two decodes of the same payload do not return the same mutable object",
                  "shared: %s" % ", ".join("%s (%s)" % s for s in shared[:4]))
        if not full:
            return "bad", failed
    # 3. edit the first result in place
    edits = mutate(v1)
    if not edits:
        return ("bad", failed) if failed else ("immutable", None)
    # 4. nobody else may see the edit
    notes = []

    def bad(clause, detail):
        nonlocal failed
        if failed is None:
            failed = (CLASS_ALIASED, clause, detail)
        notes.append("%s: %s" % (clause, detail))

    if canon(v2) != c1:
        bad("a value decoded earlier is unchanged after another result was edited in place", repr(canon(v2))[:160])
    for label, dec in (("same serializer object and block", decode),) + tuple(fresh):
        if failed and not full:
            break
        try:
            v3 = unwrap(dec())
            c3 = canon(v3)
        except Exception as e:
            bad("after an earlier result was edited in place the same payload is still accepted (%s)" % label,
                "EXC:%s: %s" % (type(e).__name__, str(e)[:80]))
            continue
        if c3 != c1:
            bad("after an earlier result was edited in place, decoding the same payload again gives the value first "
                "decoded (%s)" % label, repr(c3)[:160])
            if not full:
                continue
        try:
            e3 = encode(v3)
            same = e3 == e1
            shown = e3.hex() if isinstance(e3, (bytes, bytearray)) else repr(e3)
        except Exception as e:
            same, shown = False, "EXC:%s: %s" % (type(e).__name__, str(e)[:80])
        if not same:
            bad("after an earlier result was edited in place, the same payload re-encodes exactly as in the first pass "
                "(%s)" % label, shown[:160])
    if failed:
        if full and notes:
            return "bad", (failed[0], failed[1], (failed[2] + " | " + " | ".join(notes))[:900])
        return "bad", failed
    return "ok", edits
