"""C09 helper: generate values from a serializer's own template (the `se` spec tree of the repo under
test), canonicalise decoded values, and enumerate the context values that select sub-templates.

Used by harness/props/c09.py (impl-level oracle for the byte-payload serializers).  All randomness
comes from the rng handed in (ctx.rng)."""
from __future__ import annotations

import dataclasses
import enum
import math
import struct
from typing import Any, Dict, List, Optional, Tuple


class Unsupported(Exception):
    pass


class OutOfDomain(Exception):
    pass


def f32(x: float) -> float:
    return struct.unpack("<f", struct.pack("<f", x))[0]


class Gen:
    def __init__(self, rng):
        import hippolyzer.lib.base.serialization as se
        import hippolyzer.lib.base.templates as templates
        import hippolyzer.lib.base.datatypes as dtypes
        import hippolyzer.lib.base.namevalue as namevalue
        self.se, self.T, self.dt, self.nv = se, templates, dtypes, namevalue
        self.rng = rng
        self._raw_cursor = {}

    # ---- leaves
    def prim(self, spec):
        rng = self.rng
        fmt = spec._struct_fmt.lstrip("<>!=")
        if fmt in "fd":
            r = rng.random()
            if r < 0.15:
                x = rng.choice((0.0, -0.0, 1.0, -1.0, 0.5, 255.0, 1e-3, 3.4028234663852886e+38))
            elif r < 0.2:
                x = rng.choice((math.inf, -math.inf, math.nan))
            elif r < 0.6:
                x = rng.uniform(-300.0, 300.0)
            else:
                x = rng.uniform(-1.0, 1.0) * 10.0 ** rng.randrange(-6, 12)
            return f32(x) if fmt == "f" else x
        lo, hi = spec.min_val, spec.max_val
        r = rng.random()
        if r < 0.25:
            return rng.choice((lo, hi, 0, 1, hi - 1, lo + 1, hi // 2))
        if r < 0.6:
            return max(lo, min(hi, rng.randrange(-3, 40)))
        return rng.randrange(lo, hi + 1)

    def raw_of(self, spec, child):
        """integer-backed leaves: walk through ALL raw values of the wire type, boundaries first
        (8-bit: every raw; wider: boundaries, then a stride through the range, then random)"""
        cur = self._raw_cursor.setdefault(id(spec), [0])
        i = cur[0]
        cur[0] += 1
        lo, hi = child.min_val, child.max_val
        first = [hi, hi - 1, hi - 2, hi - 3, lo, lo + 1, lo + 2, (lo + hi) // 2, (lo + hi) // 2 + 1]
        if i < len(first):
            return first[i]
        i -= len(first)
        n = hi - lo + 1
        if n <= 256:
            return lo + (i * 37) % n if i < n else self.rng.randrange(lo, hi + 1)     # 37 is coprime to 256
        if i < 512:
            return lo + (i * (n // 512) + i) % n
        return self.rng.randrange(lo, hi + 1)

    def raw_bytes(self, n):
        return bytes(self.rng.randrange(256) for _ in range(n))

    def text(self, forbidden=(b"\x00",)):
        rng = self.rng
        alphabet = "abcXYZ019_-./:;%é☃ "
        s = "".join(rng.choice(alphabet) for _ in range(rng.choice((0, 1, 3, 7, 12))))
        for t in forbidden:
            s = s.replace(t.decode("latin1"), "")
        return s.replace("\x00", "")

    def uuid(self):
        return self.dt.UUID(bytes=self.raw_bytes(16)) if self.rng.random() < 0.85 else self.dt.UUID(int=0)

    # ---- the spec walker
    def value(self, spec, cur):
        se, T, rng = self.se, self.T, self.rng
        if isinstance(spec, se.ForwardSerializable):
            spec._ensure_evaled()
            return self.value(spec._wrapped, cur)
        if isinstance(spec, se.SerializablePrimitive):
            return self.prim(spec)
        if spec is se.UUID or isinstance(spec, se.UUID):
            return self.uuid()
        if spec is se.Null or isinstance(spec, se.Null):
            return None
        if spec is T.TEFaceBitfield:
            return self.faces()
        if spec is self.nv.NameValuesSerializer or isinstance(spec, self.nv.NameValuesSerializer):
            return self.namevalues()
        if isinstance(spec, type) and issubclass(spec, se.TupleCoord):
            return spec.COORD_CLS(*[self.prim(spec.ELEM_SPEC) for _ in range(spec.NUM_ELEMS)])
        if isinstance(spec, se.EncodedTupleCoord):
            return spec.COORD_CLS(*[self.value(s, cur) for s in spec._elem_specs])
        if isinstance(spec, se.Template):
            d: Dict[str, Any] = {}
            for name, f in spec._template_spec.items():
                d[name] = self.value(f, d)
            return d
        if isinstance(spec, se.Dataclass):
            vals = self.value(spec.template, cur)
            return spec._data_cls(**vals)
        if isinstance(spec, se.Collection):
            if spec._len_spec:
                n = rng.choice((0, 1, 2, 3))
            elif spec._length:
                n = spec._length
            else:
                n = rng.choice((0, 1, 2, 4))
            entries: List[Any] = []
            for _ in range(n):
                entries.append(self.value(spec._entry_ser, entries))
            return entries
        if isinstance(spec, se.ByteArray):
            return self.raw_bytes(rng.choice((0, 1, 4, 9)))
        if isinstance(spec, se.BytesFixed):
            return self.raw_bytes(spec._size)
        if isinstance(spec, se.BytesGreedy):
            return self.raw_bytes(rng.choice((0, 1, 5, 17)))
        if isinstance(spec, se.BytesTerminated):
            b = self.raw_bytes(rng.choice((0, 1, 5)))
            for t in spec.terminators:
                b = b.replace(t, b"")
            return b
        if isinstance(spec, se.CStr):
            return self.text(tuple(spec._bytes_tmpl.terminators))
        if isinstance(spec, (se.Str, se.StrFixed)):
            s = self.text()
            if isinstance(spec, se.StrFixed):
                while len(s.encode("utf8")) > spec._length:
                    s = s[:-1]
            return s
        if isinstance(spec, se.OptionalPrefixed):
            return None if rng.random() < 0.4 else self.value(spec._ser_spec, cur)
        if isinstance(spec, se.OptionalFlagged):
            if spec._normalize_flag_val(cur) & spec._flag_val:
                return self.value(spec._ser_spec, cur)
            return None
        if isinstance(spec, se.LengthSwitch):
            # domain of a length-switched value: the tag is the length its payload really has
            keys = list(spec._choice_specs.keys())
            for _ in range(12):
                k = rng.choice(keys)
                val = self.value(spec._choice_specs[k], cur)
                w = se.BufferWriter("<")
                try:
                    w.write(spec._choice_specs[k], val, ctx=se.ParseContext(cur))
                except Exception:
                    continue
                n = len(w)
                if (k is not None and n == k) or (k is None and n not in spec._choice_specs):
                    return self.dt.TaggedUnion(n, val)
            raise OutOfDomain("length switch")
        if isinstance(spec, se.EnumSwitch):
            k = rng.choice(list(spec._choice_specs.keys()))
            return self.dt.TaggedUnion(k, self.value(spec._choice_specs[k], cur))
        if isinstance(spec, se.TypedBytesBase):
            if spec._empty_is_none and rng.random() < 0.2:
                return None
            return self.value(spec._spec, cur)
        if isinstance(spec, se.IfPresent):
            return None if rng.random() < 0.4 else self.value(spec._ser_spec, cur)
        if isinstance(spec, T.TEExceptionField):
            if spec._optional and rng.random() < 0.4:
                return None
            d = {None: self.value(spec._spec, cur)}
            used = set()
            for _ in range(rng.choice((0, 0, 1, 2, 3))):
                fs = self.faces(exclude=used)
                if not fs:
                    break
                used.update(fs)
                d[fs] = self.value(spec._spec, cur)
            return d
        if isinstance(spec, se.QuantizedFloat):
            child = spec._child_spec
            if rng.random() < 0.7:
                return spec.decode(self.raw_of(spec, child), None)
            r = rng.random()
            span = spec.upper - spec.lower
            if r < 0.8:
                return rng.uniform(spec.lower, spec.upper)
            if r < 0.9:
                return rng.choice((spec.lower, spec.upper, 0.0, -0.0))
            return rng.uniform(spec.lower - span, spec.upper + span)
        if isinstance(spec, se.FixedPoint):
            if rng.random() < 0.8:
                raw = self.raw_of(spec, spec._ser_spec)
                v = float(raw) / (1 << spec._frac_bits)
                return v - spec._max_val if spec._signed else v
            return rng.uniform(spec._min_val - 1.0, spec._max_val + 1.0)
        if isinstance(spec, se.StringEnumAdapter):
            return rng.choice(list(spec._enum_cls))
        if isinstance(spec, se.Adapter):
            if spec._child_spec is None:
                raise Unsupported("adapter without child spec: %r" % type(spec).__name__)
            raw = self.value(spec._child_spec, cur)
            return spec.decode(raw, ctx=se.ParseContext(cur), pod=False)
        raise Unsupported(type(spec).__name__ if not isinstance(spec, type) else spec.__name__)

    def faces(self, exclude=()):
        rng = self.rng
        pool = [i for i in range(rng.choice((4, 8, 20, 45))) if i not in exclude]
        if not pool:
            return ()
        k = rng.randrange(1, min(4, len(pool)) + 1)
        return tuple(sorted(rng.sample(pool, k)))

    def namevalues(self):
        nv, rng = self.nv, self.rng
        out = []
        for _ in range(rng.choice((0, 1, 2, 3))):
            name = "".join(rng.choice("AbcZ09_") for _ in range(rng.randrange(1, 8)))
            # incl. the characters str.splitlines()/bytes.splitlines() treat as line ends although only LF separates entries
            value = "".join(rng.choice("abc 019.<>,\t-é\r\x0b\x0c\x1c\x85\u2028") for _ in range(rng.randrange(0, 10)))
            out.append(nv.NameValue(name=name, type=rng.choice(list(nv.NameValueType)),
                                    rw=rng.choice(list(nv.NameValueClass)),
                                    sendto=rng.choice(list(nv.NameValueSendTo)), value=value))
        return out


# ------------------------------------------------------------------ canonical form of decoded values

def canon(v, depth=0):
    """structural, order-preserving, NaN-stable canonical form used to decide `decodes to the same value`"""
    import numpy as np
    import lazy_object_proxy
    import uuid
    import hippolyzer.lib.base.datatypes as dt
    if depth > 40:
        return "<deep>"
    if isinstance(v, lazy_object_proxy.Proxy):
        v = v.__wrapped__
    if v is None or isinstance(v, (bool, str, bytes)):
        return v
    if isinstance(v, bytearray) or isinstance(v, memoryview):
        return bytes(v)
    if isinstance(v, enum.Enum):
        return ("enum", type(v).__name__, v.value if not isinstance(v.value, float) else v.value.hex())
    if isinstance(v, int):
        return int(v)
    if isinstance(v, float):
        return "nan" if v != v else v.hex()
    if isinstance(v, np.ndarray):
        return ("nd", v.shape, str(v.dtype), v.tobytes())
    if isinstance(v, np.generic):
        return canon(v.item(), depth + 1)
    if isinstance(v, uuid.UUID):
        return ("uuid", str(v))
    if isinstance(v, dt.TaggedUnion):
        return ("tagged", canon(v.tag, depth + 1), canon(v.value, depth + 1))
    if isinstance(v, dt.TupleCoord):
        return (type(v).__name__,) + tuple(canon(x, depth + 1) for x in v)
    if dataclasses.is_dataclass(v) and not isinstance(v, type):
        return (type(v).__name__,) + tuple((f.name, canon(getattr(v, f.name), depth + 1)) for f in dataclasses.fields(v))
    try:
        from hippolyzer.lib.base.multidict import MultiDict
        if isinstance(v, MultiDict):
            return ("multidict",) + tuple((canon(k, depth + 1), canon(x, depth + 1)) for k, x in v.items(multi=True))
    except ImportError:
        pass
    if isinstance(v, dict):
        return ("dict",) + tuple((canon(k, depth + 1), canon(x, depth + 1)) for k, x in v.items())
    if isinstance(v, tuple):
        return ("tuple",) + tuple(canon(x, depth + 1) for x in v)
    if isinstance(v, list):
        return ("list",) + tuple(canon(x, depth + 1) for x in v)
    return ("other", type(v).__name__, repr(v))


def has_nonfinite(v, depth=0):
    import lazy_object_proxy
    if isinstance(v, lazy_object_proxy.Proxy):
        v = v.__wrapped__
    if isinstance(v, float):
        return v != v or v in (math.inf, -math.inf)
    if isinstance(v, dict):
        return any(has_nonfinite(k, depth + 1) or has_nonfinite(x, depth + 1) for k, x in v.items())
    if isinstance(v, (tuple, list)):
        return any(has_nonfinite(x, depth + 1) for x in v)
    return False


POD_LITERAL_TYPES = (int, float, str, bytes, bool, type(None))


def pod_literal_problem(v, path="$"):
    """None when v is built only from literal-representable plain data; else the offending path/type"""
    if type(v) in POD_LITERAL_TYPES:
        return None
    if type(v) in (tuple, list):
        for i, x in enumerate(v):
            p = pod_literal_problem(x, "%s[%d]" % (path, i))
            if p:
                return p
        return None
    if type(v) is dict:
        for k, x in v.items():
            p = pod_literal_problem(k, path + ".<key>") or pod_literal_problem(x, "%s[%r]" % (path, k))
            if p:
                return p
        return None
    return "%s: %s" % (path, type(v).__name__)


# ------------------------------------------------------------------ contexts selecting sub-templates

def contexts_for(ser) -> List[Tuple[Dict[str, int], Any]]:
    """[(context field values, spec to generate values from or None)] for a registered serializer class"""
    import hippolyzer.lib.base.serialization as se
    import hippolyzer.lib.base.templates as T
    out: List[Tuple[Dict[str, int], Any]] = []
    if isinstance(ser, type) and issubclass(ser, se.EnumSwitchedSubfieldSerializer):
        for k, tmpl in ser.TEMPLATES.items():
            out.append(({ser.ENUM_FIELD: int(k)}, None if tmpl is se.UNSERIALIZABLE else tmpl))
        absent = max(int(k) for k in ser.TEMPLATES) + 1
        out.append(({ser.ENUM_FIELD: absent}, None))
        return out
    if isinstance(ser, type) and issubclass(ser, se.FlagSwitchedSubfieldSerializer):
        allbits = 0
        for k in ser.TEMPLATES:
            allbits |= int(k)
        flags = sorted(int(k) for k in ser.TEMPLATES)
        subsets = [0]
        for f in flags:
            subsets += [s | f for s in subsets]
        extra = (allbits + 1) & ~allbits
        for s in subsets + [extra, allbits | extra]:
            out.append(({ser.FLAG_FIELD: s}, ser._build_template(s)))
        return out
    if ser is getattr(T, "TransferInfoSerializer", None):
        for k, tmpl in ser.TEMPLATES.items():
            out.append(({"TargetType": int(k)}, tmpl))
        for tmpl in T.TransferParamsSerializer.TEMPLATES.values():
            out.append(({"TargetType": 0}, tmpl))
        return out
    if isinstance(ser, type) and issubclass(ser, se.SimpleSubfieldSerializer):
        return [({}, ser.TEMPLATE)]
    if isinstance(ser, type) and issubclass(ser, se.AdapterSubfieldSerializer):
        return [({}, None)]
    return [({}, None)]
