"""C20 (B8): whole InventoryModels - (G) translator for the class table + correspondence suite.

(G)  emit(): reads the LIVE classes of hippolyzer.lib.base.inventory.INVENTORY_TYPES (order = dispatch order of
     InventoryModel.from_llsd), their dataclass field order, the order in which every format visits the fields
     (InventoryBase.to_writer's ID-first order; cls._get_fields_dict(llsd_flavor) for both flavours), ID_ATTR /
     ID_ATTR_AIS, container-ness, and the constants of the hand-written AIS overrides obtained by RUNNING them
     (what InventoryItem.from_llsd re-creates for a link, AssetType.LINK / CATEGORY), and writes coq/gen/C20_invmodel.v:
     `live_table`, `wf_table live_table = true` by vm_compute, and the whole-model theorems instantiated at it.
     Fails closed on a class overriding to_llsd/from_llsd that is not one of the two known overrides, or whose
     behaviour on the probes differs from what the override model (Asset/InvModel.v ov_write/ov_read) assumes.

(M)  correspond(): extracted model (driver commands IMT/IMR/ILW/ILR/IEQ/IADD at live_table) vs the real
     InventoryModel on generated whole models and on mutated serialisations.
"""
from __future__ import annotations

import copy
import dataclasses
import io
import logging

from harness.translate import c20_records as cr
from harness.translate import c20_codecs as cc

ZERO = "00000000-0000-0000-0000-000000000000"
ITEM_OPTIONAL = ("type", "asset_id", "shadow_id", "inv_type", "flags", "sale_info", "name", "desc", "metadata", "creation_date")
FLAVOURS = ("legacy", "ais")
# the keys the hand-written AIS overrides mention (literals in inventory.py; checked by the probes in ov_constants)
CAT_TYPE_KEY = "type"
ITEM_KEYS = {"agent": "agent_id", "perms": "permissions", "owner": "owner_id", "type": "type", "linked": "linked_id",
             "asset": "asset_id", "sale": "sale_info"}


def _quiet():
    logging.disable(logging.CRITICAL)


# ---------------------------------------------------------------------------------------- live class table

def inv_types():
    from hippolyzer.lib.base import inventory as inv
    return list(inv.INVENTORY_TYPES)


def dc_fields(cls):
    """schema fields in dataclasses.fields order, in c20_records' descriptor format (name = attribute name)"""
    return cr.live_llsd_schema(cls, "legacy")


def class_info(cls):
    from hippolyzer.lib.base import inventory as inv
    names = [f["name"] for f in dc_fields(cls)]
    if [f.name for f in dataclasses.fields(cls) if f.metadata.get("spec")] != names:
        raise RuntimeError("dataclass order of %s is not the legacy LLSD order" % cls.__name__)
    idx = {n: i for i, n in enumerate(names)}
    info = {"cls": cls, "name": cls.SCHEMA_NAME, "container": issubclass(cls, inv.InventoryContainerBase), "arity": len(names),
            "idpos": idx[cls.ID_ATTR], "parentpos": idx["parent_id"],
            "text_perm": [idx[n] for n, _ in cr.write_order(cls)],
            "ids": {"legacy": cls.ID_ATTR, "ais": getattr(cls, "ID_ATTR_AIS", cls.ID_ATTR)}}
    for fl in FLAVOURS:
        info[fl + "_perm"] = [idx[f["name"]] for f in cr.live_llsd_schema(cls, fl)]
    own = [m for m in ("to_llsd", "from_llsd") if m in cls.__dict__]
    if not own:
        info["ov"] = ("none",)
    elif cls is inv.InventoryCategory and len(own) == 2:
        info["ov"] = ("cat",)
    elif cls is inv.InventoryItem and len(own) == 2:
        info["ov"] = ("item",)
    else:
        raise RuntimeError("%s overrides %s: no model for that override" % (cls.__name__, own))
    return info


def ov_constants():
    """constants of the AIS overrides, obtained by running them; every probe doubles as a fail-closed check"""
    from hippolyzer.lib.base import inventory as inv
    from hippolyzer.lib.base.datatypes import UUID
    from hippolyzer.lib.base.templates import AssetType
    _quiet()
    u = UUID(int=0x1234)
    link = inv.InventoryItem.from_llsd({"item_id": u, "parent_id": u, ITEM_KEYS["linked"]: UUID(int=7)}, "ais")
    if link.asset_id != UUID(int=7) or link.type is None or link.permissions is None or link.sale_info is None:
        raise RuntimeError("InventoryItem.from_llsd(ais) does not rebuild a link the way the model assumes")
    link_val = int(link.type)
    if link_val != int(AssetType.LINK):
        raise RuntimeError("link type re-created by from_llsd is not AssetType.LINK")
    dp = link.permissions.to_llsd("ais")
    ds = link.sale_info.to_llsd("ais")
    d = link.to_llsd("ais")
    want = {"parent_id", "item_id", ITEM_KEYS["type"], ITEM_KEYS["agent"], ITEM_KEYS["linked"]}
    if set(d.keys()) != want or d[ITEM_KEYS["agent"]] != link.permissions.owner_id or d[ITEM_KEYS["linked"]] != UUID(int=7):
        raise RuntimeError("InventoryItem.to_llsd(ais) of a link has unexpected keys %r" % sorted(d.keys()))
    cat = inv.InventoryCategory.from_llsd({"category_id": u, "parent_id": u, "name": "x", "type_default": -1}, "ais")
    cat_val = int(cat.type)
    if cat_val != int(AssetType.CATEGORY) or CAT_TYPE_KEY in cat.to_llsd("ais") or CAT_TYPE_KEY not in cat.to_llsd("legacy"):
        raise RuntimeError("InventoryCategory AIS override does not drop/re-add %r as assumed" % CAT_TYPE_KEY)
    return {"link": link_val, "cat": cat_val, "dflt_perms": dp, "dflt_sale": ds}


def _clval(v):
    """a live LLSD value of the override constants -> Coq lval"""
    import uuid as _uuid
    def prim(x):
        if isinstance(x, bool):
            raise RuntimeError("bool in override constant")
        if isinstance(x, _uuid.UUID):
            return "(LU %d)" % x.int
        if isinstance(x, int):
            return "(LI (%d)%%Z)" % x
        if isinstance(x, str):
            return "(LS %s)" % cr.cstr(x)
        if isinstance(x, (bytes, bytearray)):
            return "(LB [%s])" % "; ".join(str(b) for b in bytes(x))
        raise RuntimeError("override constant of type %s" % type(x).__name__)
    if isinstance(v, dict):
        return "(LM [%s])" % "; ".join("(%s, %s)" % (cr.cstr(k), prim(x)) for k, x in v.items())
    return "(LP %s)" % prim(v)


def emit(path):
    infos = [class_info(c) for c in inv_types()]
    oc = ov_constants()
    src = ["(* generated by harness/translate/c20_invmodel.py from the live INVENTORY_TYPES - do not edit *)",
           "From Coq Require Import NArith ZArith List Bool.",
           "From HV Require Import Base.Bytes Asset.Schema Asset.Digits Asset.Record Asset.RecordProofs Asset.Llsd Asset.LlsdProofs "
           "Asset.InvModel Asset.InvModelProofs.",
           "From HVgen Require Import C20_records C20_llsd.",
           "Import ListNotations.", "Local Open Scope N_scope.", ""]
    rows = []
    for inf in infos:
        cn = inf["cls"].__name__
        if inf["ov"][0] == "none":
            ov = "OvNone"
        elif inf["ov"][0] == "cat":
            ov = "(OvCat %s (%d)%%Z)" % (cr.cstr(CAT_TYPE_KEY), oc["cat"])
        else:
            k = ITEM_KEYS
            ov = "(OvItem %s %s %s %s %s %s %s (%d)%%Z\n      %s\n      %s)" % (
                cr.cstr(k["agent"]), cr.cstr(k["perms"]), cr.cstr(k["owner"]), cr.cstr(k["type"]), cr.cstr(k["linked"]),
                cr.cstr(k["asset"]), cr.cstr(k["sale"]), oc["link"], _clval(oc["dflt_perms"]), _clval(oc["dflt_sale"]))
        nats = lambda l: "[%s]%%nat" % "; ".join(str(i) for i in l)
        src.append("(* %s: dataclass order %s *)" % (cn, " ".join(f["name"] for f in dc_fields(inf["cls"]))))
        rows.append("mkCls live_%s_name %s %d%%nat %d%%nat %d%%nat\n    live_%s %s\n    llsd_%s_legacy %s %s\n    llsd_%s_ais %s %s\n    %s"
                    % (cn, "true" if inf["container"] else "false", inf["arity"], inf["idpos"], inf["parentpos"],
                       cn, nats(inf["text_perm"]), cn, nats(inf["legacy_perm"]), cr.cstr(inf["ids"]["legacy"]),
                       cn, nats(inf["ais_perm"]), cr.cstr(inf["ids"]["ais"]), ov))
    src.append("Definition live_table : ctable := [\n  %s ]." % ";\n  ".join(rows))
    src.append("""
Lemma live_table_wf : wf_table live_table = true.
Proof. vm_compute. reflexivity. Qed.

Lemma live_table_wf_text : wf_table_text live_table = true.
Proof. vm_compute. reflexivity. Qed.
Lemma live_table_wf_llsd : forall fl, wf_table_llsd fl live_table = true.
Proof. intros []; vm_compute; reflexivity. Qed.

(* the whole-model theorems at the classes the code has today *)
Theorem live_model_text_roundtrip : forall m,
  forallb (node_ok_text live_table) (svalues m) = true -> ids_distinct live_table (svalues m) = true ->
  exists m', from_reader live_table (to_writer live_table m) = Some m' /\\
    svalues m' = ordered live_table (svalues m) /\\ skeys m' = map (node_key live_table) (ordered live_table (svalues m)) /\\
    s_root m' = root_of live_table (ordered live_table (svalues m)) /\\ model_eq m' m.
Proof. intros m. exact (model_text_roundtrip live_table m live_table_wf_text). Qed.

Theorem live_model_llsd_roundtrip : forall fl m,
  forallb (node_ok_llsd fl live_table) (svalues m) = true -> ids_distinct live_table (svalues m) = true ->
  exists ds m', model_to_llsd fl live_table m = Some ds /\\ model_from_llsd fl live_table ds = Some m' /\\
    svalues m' = ordered live_table (svalues m) /\\ skeys m' = map (node_key live_table) (ordered live_table (svalues m)) /\\
    s_root m' = root_of live_table (ordered live_table (svalues m)) /\\ model_eq m' m.
Proof. intros fl m. exact (model_llsd_roundtrip fl live_table m (live_table_wf_llsd fl)). Qed.

Theorem live_from_reader_blocks : forall jns tail,
  Forall (fun jn => forallb (skip_line live_table) (fst jn) = true /\\ node_ok_text live_table (snd jn) = true) jns ->
  forallb (skip_line live_table) tail = true ->
  from_reader live_table (block_seq live_table jns ++ tail) = add_all live_table empty_store (map snd jns).
Proof. intros jns tail. exact (from_reader_blocks live_table jns tail live_table_wf_text). Qed.
""")
    with open(path, "w") as f:
        f.write("\n".join(src) + "\n")
    return {"classes": [i["cls"].__name__ for i in infos], "link": oc["link"], "cat": oc["cat"]}


# ---------------------------------------------------------------------------------------- driver syntax

def enc_node(obj, idx_of, fields_of):
    return "%d @ %s" % (idx_of[type(obj)], cr.enc_record(obj, fields_of[type(obj)]))


def enc_nodes(objs, idx_of, fields_of):
    return " || ".join(enc_node(o, idx_of, fields_of) for o in objs)


def enc_store(model, idx_of, fields_of):
    vals = list(model.nodes.values())
    cons = list(model.nodes.keys()) == [n.node_id for n in vals] and len(set(model.nodes.keys())) == len(vals)
    root = "-" if model.root is None else enc_node(model.root, idx_of, fields_of)
    return "N %s # root=%s cons=%s" % (enc_nodes(vals, idx_of, fields_of), root, "true" if cons else "false")


def _by_type(v):
    import uuid as _uuid
    if isinstance(v, bool):
        return "?bool"
    if isinstance(v, (bytes, bytearray)):
        return "b" + bytes(v).hex()
    if isinstance(v, _uuid.UUID):
        return "u%x" % v.int
    if isinstance(v, int):
        return "i%d" % int(v)
    if isinstance(v, str):
        return "s" + cr._cps(v)
    return "?" + type(v).__name__


def enc_dict(d, flavour, tables):
    """one node dict -> driver syntax.  The class is chosen as the code chooses it (first id key present); values under
    the class's own keys are encoded by the field kind (embedded LLSD as its XML text), others by their Python type"""
    fields = None
    for ids, flds in tables[flavour]:
        if ids in d:
            fields = flds
            break
    by_key = {f["key"]: f for f in (fields or [])}
    out = []
    for k, v in d.items():
        f = by_key.get(k)
        if isinstance(v, dict) and not (f is not None and f["kind"][0] == "KLLSD"):
            sub = {g["key"]: g for g in f["kind"][2]} if (f is not None and f["kind"][0] == "BLOCK") else {}
            ents = []
            for k2, v2 in v.items():
                g = sub.get(k2)
                ents.append("%s=%s" % (cr._cps(k2), cr.enc_lprim(g["kind"], v2, flavour) if g is not None else _by_type(v2)))
            out.append("%s=m[%s]" % (cr._cps(k), " ! ".join(ents)))
        elif f is not None and f["kind"][0] != "BLOCK":
            out.append("%s=%s" % (cr._cps(k), cr.enc_lprim(f["kind"], v, flavour)))
        else:
            out.append("%s=%s" % (cr._cps(k), _by_type(v)))
    return " ; ".join(out)


def _uncps(s):
    return "".join(chr(int(w)) for w in s.split(",")) if s else ""


def dec_value(w):
    from hippolyzer.lib.base.datatypes import UUID
    from hippolyzer.lib.base.legacy_schema import SchemaLLSD
    t, body = w[0], w[1:]
    if t == "s":
        return _uncps(body)
    if t == "i":
        return int(body)
    if t == "b":
        return bytes.fromhex(body)
    if t == "u":
        return UUID(int=int(body, 16))
    if t == "x":
        return SchemaLLSD.deserialize(_uncps(body) + "\n|")
    raise ValueError("undecodable driver value %r" % w)


def dec_dict(enc):
    d = {}
    enc = enc.strip()
    if not enc:
        return d
    for e in enc.split(" ; "):
        k, v = e.strip().split("=", 1)
        if v.startswith("m["):
            inner = v[2:-1].strip()
            sub = {}
            if inner:
                for e2 in inner.split(" ! "):
                    k2, v2 = e2.strip().split("=", 1)
                    sub[_uncps(k2)] = dec_value(v2)
            d[_uncps(k)] = sub
        else:
            d[_uncps(k)] = dec_value(v)
    return d


def encodable(enc):
    return "?" not in enc and "UNENCODABLE" not in enc


def text_lines(text):
    ls = text.split("\n")
    if ls and ls[-1] == "":
        ls.pop()
    return ls


# ---------------------------------------------------------------------------------------- real-code observations

class Live:
    def __init__(self):
        from hippolyzer.lib.base import inventory as inv
        _quiet()
        self.inv = inv
        self.types = inv_types()
        self.idx_of = {c: i for i, c in enumerate(self.types)}
        self.fields_of = {c: dc_fields(c) for c in self.types}
        self.tables = {fl: [(getattr(c, "ID_ATTR_AIS", c.ID_ATTR) if fl == "ais" else c.ID_ATTR, cr.live_llsd_schema(c, fl))
                            for c in self.types] for fl in FLAVOURS}

    def build(self, specs, rekey=None):
        """a model a user builds with add(); rekey = [(i, j)]: afterwards node i's id attribute is overwritten with node j's
        id (attribute surgery: the dict key stays)"""
        m = self.inv.InventoryModel()
        objs = []
        for s in specs:
            o = cc.node_from_spec(s)
            objs.append(o)
            m.add(o)
        for i, j in (rekey or []):
            objs[i].node_id = objs[j].node_id
        return m

    def nodes(self, m):
        return enc_nodes(list(m.nodes.values()), self.idx_of, self.fields_of)

    def store(self, m):
        return enc_store(m, self.idx_of, self.fields_of)

    def obs_text_write(self, m):
        try:
            text = m.to_str()
        except Exception as e:
            return None, "ERR", type(e).__name__
        try:
            back = self.inv.InventoryModel.from_str(text)
            rt = back == m
        except Exception:
            rt = False
        return text, rt, None

    def obs_text_read(self, lines):
        try:
            m = self.inv.InventoryModel.from_reader(io.StringIO("".join(l + "\n" for l in lines)))
        except Exception as e:
            return "ERR", type(e).__name__
        try:
            return self.store(m), None
        except Exception as e:
            return "UNENCODABLE:" + type(e).__name__, None

    def obs_llsd_write(self, m, fl):
        try:
            ds = m.to_llsd(fl)
        except Exception as e:
            return None, False, type(e).__name__
        try:
            back = self.inv.InventoryModel.from_llsd(ds, fl)
            rt = back == m
        except Exception:
            rt = False
        return ds, rt, None

    def obs_llsd_read(self, ds, fl):
        try:
            m = self.inv.InventoryModel.from_llsd(ds, fl)
        except Exception as e:
            return "ERR", type(e).__name__
        try:
            return self.store(m), None
        except Exception as e:
            return "UNENCODABLE:" + type(e).__name__, None

    def obs_add(self, specs):
        m = self.inv.InventoryModel()
        try:
            for s in specs:
                m.add(cc.node_from_spec(s))
        except KeyError:
            return "ERR"
        return self.store(m)


# ---------------------------------------------------------------------------------------- generators

def gen_model(rng, flavour, n=None, fill=None):
    """node specs of one model: 0..12 nodes, every kind, parents shared / missing / root, links"""
    if n is None:
        n = rng.choice((0, 1, 1, 2, 2, 3, 3, 4, 5, 6, 8, 10, 12))
    nodes = []
    for j in range(n):
        kind = rng.choice(("cat", "cat", "obj", "item", "item", "item"))
        r = rng.random()
        if r < 0.2 or not nodes:
            parent = ZERO if rng.random() < 0.7 else cc.gen_uuid(rng)          # root-level / parent not in the model
        elif r < 0.9:
            parent = rng.choice(nodes)["id"]                                   # shared parents (any kind, as the code allows)
        else:
            parent = cc.gen_uuid(rng)
        f = fill or rng.choice(("all", "none", "rand", "rand"))
        s = cc.gen_node(rng, rng.randrange(0, 997), kind, flavour, parent, f)
        if kind == "item" and rng.random() < 0.25:
            s["type"] = 24                                                     # a link
            if rng.random() < 0.85:
                s.setdefault("asset_id", cc.gen_uuid(rng))
            if flavour == "ais" and rng.random() < 0.8:
                s["permissions"] = dict(cc.AIS_LINK_PERMS)
                s["sale_info"] = {"sale_type": 0, "sale_price": 0}
        s["id"] = "%08x-%s" % (j + 1, s["id"].split("-", 1)[1])
        nodes.append(s)
    return nodes


def perturb(rng, nodes, flavour):
    """push a model outside the domain of the flavour (the model and the code must still agree on what happens)"""
    nodes = copy.deepcopy(nodes)
    if not nodes:
        return nodes, "none"
    s = rng.choice(nodes)
    r = rng.random()
    if r < 0.25:
        s["name"] = rng.choice((" lead", "a|b", "\x0bvt", "x\ty", "")) + (s.get("name") or "")
        return nodes, "name"
    if r < 0.4 and s["k"] == "cat":
        if flavour == "ais":
            s["type"] = rng.choice((0, 6, 10))
            return nodes, "cat-type"
        s["version"] = rng.choice((0, 3, 77))
        return nodes, "cat-version"
    if r < 0.7 and s["k"] == "item":
        s["type"] = 24
        q = rng.random()
        if q < 0.3:
            s.pop("asset_id", None)
            return nodes, "link-no-asset"
        s.setdefault("asset_id", cc.gen_uuid(rng))
        if q < 0.6:
            s["sale_info"] = None
            return nodes, "link-no-sale"
        s["permissions"] = cc.gen_perms(rng)
        return nodes, "link-perms"
    if r < 0.8 and s["k"] == "item":
        s["permissions"]["is_owner_group"] = rng.choice((0, 1))
        return nodes, "is-owner-group"
    if r < 0.9 and s["k"] == "item" and flavour != "legacy":      # legacy LLSD: struct.pack raises (outside the model's total to_llsd)
        s["flags"] = rng.choice((2 ** 32, 2 ** 40 + 5))
        return nodes, "flags-wide"
    s["parent_id"] = ZERO
    return nodes, "parent-zero"


def pairwise_items(rng, flavour):
    """items covering every presence combination of every pair of optional fields"""
    out = []
    k = 0
    for a in range(len(ITEM_OPTIONAL)):
        for b in range(a + 1, len(ITEM_OPTIONAL)):
            for pa in (True, False):
                for pb in (True, False):
                    s = cc.gen_node(rng, k, "item", flavour, ZERO, "all")
                    for i, key in enumerate(ITEM_OPTIONAL):
                        keep = pa if i == a else pb if i == b else rng.random() < 0.5
                        if not keep:
                            s.pop(key, None)
                    if flavour == "ais" and s.get("type") == 24:
                        s["permissions"] = dict(cc.AIS_LINK_PERMS)
                        s["sale_info"] = {"sale_type": 0, "sale_price": 0}
                        s.setdefault("asset_id", cc.gen_uuid(rng))
                    k += 1
                    s["id"] = "%08x-%s" % (k, s["id"].split("-", 1)[1])
                    out.append(s)
    return out


def mutate_lines(rng, lines):
    """block-level mutations of a serialised model"""
    starts = [i for i, l in enumerate(lines) if l.startswith("\tinv_")]
    blocks = [lines[a:b] for a, b in zip(starts, starts[1:] + [len(lines)])]
    r = rng.random()
    if blocks and r < 0.15:
        del blocks[rng.randrange(len(blocks))]
        lab = "block-dropped"
    elif blocks and r < 0.3:
        blocks.insert(rng.randrange(len(blocks) + 1), list(rng.choice(blocks)))
        lab = "block-duplicated"
    elif len(blocks) > 1 and r < 0.45:
        rng.shuffle(blocks)
        lab = "blocks-reordered"
    elif r < 0.6:
        junk = ["\tinv_widget\t0", "\t{", "\t\twidget_id\t1", "\t}"] if rng.random() < 0.6 else ["\tinv_widget\t0"]
        blocks.insert(rng.randrange(len(blocks) + 1), junk)
        lab = "unknown-kind"
    elif r < 0.75:
        blocks.insert(rng.randrange(len(blocks) + 1), [rng.choice(("", "  ", "\t", "junk", "a b\tc", "\t{", "{", "no_value"))])
        lab = "skippable-line"
    elif r < 0.85:
        blocks.insert(rng.randrange(len(blocks) + 1), [rng.choice(("\t}", "}", " } x"))])
        lab = "stray-close"
    elif blocks:
        b = blocks[rng.randrange(len(blocks))]
        q = rng.random()
        if q < 0.4 and len(b) > 1:
            del b[rng.randrange(1, len(b))]
            lab = "line-dropped"
        elif q < 0.6:
            names = ["inv_item", "inv_category", "inv_object", "inv_widget", "INV_ITEM"]
            for nm in names[:3]:
                if nm in b[0]:
                    b[0] = b[0].replace(nm, rng.choice([x for x in names if x != nm]))
                    break
            lab = "header-changed"
        else:
            b.insert(rng.randrange(1, len(b) + 1), rng.choice(("\t\tbogus\t1", "", "\t\tname\tother|", "\t\tparent_id\tnot-a-uuid")))
            lab = "line-inserted"
    else:
        lab = "unchanged"
    return [l for b in blocks for l in b], lab


def mutate_dicts(rng, ds, flavour, live):
    ds = [dict((k, dict(v) if isinstance(v, dict) else v) for k, v in d.items()) for d in ds]
    r = rng.random()
    ids = [t[0] for t in live.tables[flavour]]
    if ds and r < 0.12:
        del ds[rng.randrange(len(ds))]
        return ds, "dict-dropped"
    if ds and r < 0.24:
        ds.insert(rng.randrange(len(ds) + 1), dict(rng.choice(ds)))
        return ds, "dict-duplicated"
    if len(ds) > 1 and r < 0.34:
        rng.shuffle(ds)
        return ds, "dicts-reordered"
    if r < 0.42:
        ds.insert(rng.randrange(len(ds) + 1), rng.choice(({}, {"zz": 1}, {"name": "no id"})))
        return ds, "no-id-key"
    if not ds:
        return ds, "unchanged"
    d = rng.choice(ds)
    if r < 0.6 and d:
        d.pop(rng.choice(list(d.keys())))
        return ds, "key-dropped"
    if r < 0.7:
        d["zz_unknown"] = 5
        return ds, "unknown-key"
    if r < 0.8:
        from hippolyzer.lib.base.datatypes import UUID
        d[rng.choice(ids)] = UUID(int=rng.getrandbits(64))
        return ds, "second-id-key"
    if flavour == "ais":
        from hippolyzer.lib.base.datatypes import UUID
        q = rng.random()
        if q < 0.35:
            d["linked_id"] = UUID(int=rng.getrandbits(64))
            return ds, "linked-id-added"
        if q < 0.55:
            d.pop("linked_id", None)
            return ds, "linked-id-removed"
        if q < 0.8:
            d["type"] = rng.choice((8, 6, 24, 0))
            return ds, "type-set"
        d.pop("agent_id", None)
        return ds, "agent-id-removed"
    if "flags" in d:
        d["flags"] = rng.choice((5, b"\x00\x00\x01\x00", b"\x01\x02\x03"))
        return ds, "flags-retyped"
    return ds, "unchanged"


def explicit_cases():
    """the witnesses of the `_refuted` theorems of Props/C20.v, at the live classes, plus the block-level hazards"""
    p = {"base_mask": 1, "owner_mask": 2, "group_mask": 3, "everyone_mask": 4, "next_owner_mask": 5,
         "creator_id": "00000000-0000-0000-0000-000000000001", "owner_id": "00000000-0000-0000-0000-000000000002",
         "last_owner_id": "00000000-0000-0000-0000-000000000003", "group_id": "00000000-0000-0000-0000-000000000004"}
    u = lambda i: "00000000-0000-0000-0000-%012x" % i
    root = {"k": "cat", "id": u(0x10), "parent_id": ZERO, "type": 8, "pref_type": 8, "name": "My Inventory"}
    sub = {"k": "cat", "id": u(0x11), "parent_id": u(0x10), "type": 8, "pref_type": -1, "name": "Clothing", "owner_id": u(2)}
    item = {"k": "item", "id": u(0x20), "parent_id": u(0x11), "permissions": dict(p), "type": 5, "inv_type": 18, "flags": 0x8e000,
            "sale_info": {"sale_type": 2, "sale_price": 10}, "name": "shirt", "desc": "a shirt", "creation_date": 1587367239,
            "asset_id": u(0x99)}
    link = {"k": "item", "id": u(0x21), "parent_id": u(0x10), "permissions": dict(cc.AIS_LINK_PERMS), "type": 24,
            "asset_id": u(0x20), "sale_info": {"sale_type": 0, "sale_price": 0}, "name": "shirt link"}
    obj = {"k": "obj", "id": u(0x30), "parent_id": u(0x11), "type": 6, "name": "box"}
    base = [item, root, obj, sub, link]
    out = [("example-tree", base, None)]
    out.append(("dup-ids-after-surgery", base, [(4, 0)]))
    bad_cat = copy.deepcopy(base)
    bad_cat[3]["type"] = 6
    out.append(("ais-category-not-CATEGORY", bad_cat, None))
    l1 = copy.deepcopy(base)
    del l1[4]["asset_id"]
    out.append(("ais-link-without-target", l1, None))
    l2 = copy.deepcopy(base)
    l2[4]["sale_info"] = None
    out.append(("ais-link-without-sale-info", l2, None))
    l3 = copy.deepcopy(base)
    l3[4]["permissions"] = dict(p)
    out.append(("ais-link-own-permissions", l3, None))
    v = copy.deepcopy(base)
    v[1]["version"] = 7
    out.append(("text-category-version", v, None))
    return out


# ---------------------------------------------------------------------------------------- the suite

def correspond(ctx, CorrResult):
    rng = ctx.rng
    live = Live()
    res = CorrResult(suite="whole InventoryModels: real InventoryModel vs extracted model at the live class table",
                     rule="models of 0..12 nodes built with the real add() (categories/objects/items incl. links, parents shared, "
                          "missing or ZERO, optional fields all/none/random plus a pairwise sweep of the item's optional fields, "
                          "embedded metadata), ~25% pushed outside a flavour's domain (leading blanks/'|'/TAB in names, category "
                          "version or type, links without target / sale_info / with own permissions, wide flags) and some with two "
                          "nodes given the same id afterwards; per flavour text/legacy/ais: IMT/ILW compare the serialisation "
                          "(text character by character; LLSD list: keys, order, value types) and the verdict "
                          "`parse(serialise(m)) == m`; whenever the model says the node/ids hypotheses of the theorem hold the real "
                          "round trip must succeed (impl-level statement).  IMR/ILR: the real serialisations as written and mutated "
                          "(blocks/dicts dropped, duplicated, reordered, unknown kinds, stray braces, skippable lines, header or id "
                          "key changed, keys dropped/added, linked_id/type/agent_id edited) through real from_reader/from_llsd and "
                          "the model: exception or the same nodes in the same dict order, same root.  IEQ: __eq__ vs model_eqb on "
                          "related pairs; IADD: add() sequences with duplicate ids.  non-trivial = distinct driver line with >= 2 nodes")
    lines, want, cases = [], [], []
    dist = {}

    def add(line, obs, case):
        lines.append(line)
        want.append(obs)
        cases.append(case)
        dist[case["kind"] + ":" + case.get("label", "")] = dist.get(case["kind"] + ":" + case.get("label", ""), 0) + 1

    def model_cases(label, specs, rekey, flavours=("text",) + FLAVOURS, mutate=2):
        try:
            m = live.build(specs, rekey)
            enc = live.nodes(m)
        except Exception as e:
            ctx.notes.append("inventory model generator value not buildable: %s" % type(e).__name__)
            return
        if not encodable(enc):
            dist["unencodable"] = dist.get("unencodable", 0) + 1
            return
        base = {"nodes": specs, "rekey": rekey, "label": label}
        for fl in flavours:
            if fl == "text":
                text, rt, exc = live.obs_text_write(m)
                if text is None:
                    add("IMT " + enc, "T=ERR", dict(base, kind="inv-text-write", exc=exc))
                    continue
                add("IMT " + enc, "rt=%s T=%s" % ("true" if rt else "false", cr._cps(text)), dict(base, kind="inv-text-write", rt=rt))
                variants = [("as-written", text_lines(text))]
                for _ in range(mutate):
                    ml, lab = mutate_lines(rng, text_lines(text))
                    variants.append((lab, ml))
                for lab, ls in variants:
                    obs, exc = live.obs_text_read(ls)
                    add("IMR " + cr.enc_lines(ls), obs, {"kind": "inv-text-read", "label": lab, "lines": ls, "exc": exc})
            else:
                ds, rt, exc = live.obs_llsd_write(m, fl)
                if ds is None:
                    add("ILW %s %s" % (fl, enc), "D=ERR", dict(base, kind="inv-llsd-write", flavour=fl, exc=exc))
                    continue
                try:
                    denc = " || ".join(enc_dict(d, fl, live.tables) for d in ds)
                except Exception as e:
                    denc = "?EXC:" + type(e).__name__
                add("ILW %s %s" % (fl, enc), "rt=%s D=%s" % ("true" if rt else "false", denc),
                    dict(base, kind="inv-llsd-write", flavour=fl, rt=rt))
                variants = [("as-written", ds)]
                for _ in range(mutate):
                    variants.append(tuple(reversed(mutate_dicts(rng, ds, fl, live))))
                for lab, dd in variants:
                    try:
                        de = [enc_dict(d, fl, live.tables) for d in dd]
                    except Exception:
                        continue
                    if not all(encodable(x) for x in de):
                        dist["unencodable"] = dist.get("unencodable", 0) + 1
                        continue
                    try:
                        dd2 = [dec_dict(x) for x in de]       # the code sees exactly what the case stores
                    except Exception:
                        dist["undecodable"] = dist.get("undecodable", 0) + 1
                        continue
                    obs, exc = live.obs_llsd_read(dd2, fl)
                    add("ILR %s %s" % (fl, " || ".join(de)), obs,
                        {"kind": "inv-llsd-read", "label": lab, "flavour": fl, "dicts": de, "exc": exc})

    for label, specs, rekey in explicit_cases():
        model_cases("explicit:" + label, specs, rekey, mutate=1)
    for fl in ("text",) + FLAVOURS:
        gfl = fl
        items = pairwise_items(rng, gfl)
        for i in range(0, len(items), 12):
            model_cases("pairwise", items[i:i + 12], None, flavours=(fl,), mutate=0)
        for i in range(ctx.pick(110, 1200)):
            specs = gen_model(rng, gfl)
            lab = "valid"
            rekey = None
            r = rng.random()
            if r < 0.25:
                specs, what = perturb(rng, specs, gfl)
                lab = "perturbed"
            elif r < 0.33 and len(specs) >= 2:
                a, b = rng.sample(range(len(specs)), 2)
                rekey, lab = [(a, b)], "same-id-twice"
            model_cases(lab, specs, rekey, flavours=(fl,))
    # __eq__ and add()
    for _ in range(ctx.pick(120, 2000)):
        a = gen_model(rng, "legacy", n=rng.randrange(0, 6))
        b = copy.deepcopy(a)
        r = rng.random()
        if r < 0.3:
            rng.shuffle(b)
            lab = "permuted"
        elif r < 0.5 and b:
            del b[rng.randrange(len(b))]
            lab = "node-removed"
        elif r < 0.8 and b:
            s = rng.choice(b)
            s["name"] = (s.get("name") or "") + "x"
            lab = "field-changed"
        elif b:
            s = rng.choice(b)
            s["k"], lab = ("obj" if s["k"] == "cat" else s["k"]), "class-changed"
            if s["k"] == "obj":
                s.setdefault("type", 6)
                s["name"] = s.get("name") or "n"
        else:
            lab = "empty"
        try:
            ma, mb = live.build(a), live.build(b)
            ea, eb = live.nodes(ma), live.nodes(mb)
        except Exception:
            continue
        if not (encodable(ea) and encodable(eb)):
            continue
        add("IEQ %s ## %s" % (ea, eb), "true" if ma == mb else "false", {"kind": "inv-eq", "label": lab, "a": a, "b": b})
    for _ in range(ctx.pick(120, 2000)):
        specs = gen_model(rng, "legacy", n=rng.randrange(0, 7))
        if specs and rng.random() < 0.5:
            specs.insert(rng.randrange(len(specs) + 1), dict(rng.choice(specs)))
        if len(specs) >= 2 and rng.random() < 0.3:
            specs[rng.randrange(len(specs))]["id"] = rng.choice(specs)["id"]       # another class, same id
        try:
            enc = enc_nodes([cc.node_from_spec(s) for s in specs], live.idx_of, live.fields_of)
        except Exception:
            continue
        if not encodable(enc):
            continue
        add("IADD " + enc, live.obs_add(specs), {"kind": "inv-add", "label": "add", "nodes": specs})

    model = ctx.run_driver(lines) if lines else []
    in_dom = 0
    seen_v = set()
    for ln, ml, il, c in zip(lines, model, want, cases):
        m = ml.strip()
        flags = {}
        if c["kind"] in ("inv-text-write", "inv-llsd-write"):
            # model line: "wf=<b> ids=<b> rt=<b> T=...|D=..."  ->  compare "rt=.. T=.."
            parts = m.split(" ", 2)
            if len(parts) == 3 and parts[0].startswith("wf=") and parts[1].startswith("ids="):
                flags = {"wf": parts[0][3:], "ids": parts[1][4:]}
                m = parts[2]
            if il.endswith("=ERR") and m.endswith("=ERR"):
                m = il          # both raise while serialising: the verdict flag is meaningless
        if m != il:
            d = {k: v for k, v in c.items()}
            d.update({"model": m[:400], "impl": il[:400], "class": "model-vs-code:" + c["kind"],
                      "clause": "extracted model and real InventoryModel agree on this input", "model_line": m})
            res.disagreements.append(d)
        if flags.get("wf") == "true" and flags.get("ids") == "true":
            in_dom += 1
            if c.get("rt") is not True:
                cls = "inv-model-roundtrip:%s:%s" % (c["kind"], c.get("flavour", "text"))
                if cls not in seen_v:
                    seen_v.add(cls)
                    small = shrink_nodes(live, c["nodes"], c["kind"], c.get("flavour", "text")) if not c.get("rekey") else c["nodes"]
                    res.impl_violations.append({"clause": "a model inside the hypotheses of the whole-model theorem survives "
                                                          "serialise-then-parse on the real code", "class": cls, "kind": c["kind"],
                                                "flavour": c.get("flavour", "text"), "nodes": small, "rekey": c.get("rekey")})
    res.evaluations = len(lines)
    res.distinct_nontrivial = len(set(l for l in lines if "||" in l))
    dist["in-domain-roundtrips"] = in_dom
    res.distribution = dist
    res.samples = [{"line": lines[i][:160], "impl": str(want[i])[:160]} for i in (0, 1, len(lines) // 2) if i < len(lines)]
    return res


def shrink_nodes(live, specs, kind, flavour):
    """greedy: drop nodes while the real round trip still fails (node_ok and distinct ids are inherited by sub-models)"""
    def bad(ns):
        try:
            m = live.build(ns)
            rt = live.obs_text_write(m)[1] if kind == "inv-text-write" else live.obs_llsd_write(m, flavour)[1]
            return rt is not True
        except Exception:
            return False
    specs = list(specs)
    changed = True
    while changed and len(specs) > 1:
        changed = False
        for i in range(len(specs)):
            t = specs[:i] + specs[i + 1:]
            if bad(t):
                specs, changed = t, True
                break
    return specs


def replay_case(case):
    kind = case.get("kind")
    live = Live()
    if kind in ("inv-text-write", "inv-llsd-write"):
        m = live.build(case["nodes"], case.get("rekey"))
        if kind == "inv-text-write":
            text, rt, exc = live.obs_text_write(m)
            obs = "T=ERR" if text is None else "rt=%s T=%s" % ("true" if rt else "false", cr._cps(text))
        else:
            fl = case["flavour"]
            ds, rt, exc = live.obs_llsd_write(m, fl)
            obs = "D=ERR" if ds is None else "rt=%s D=%s" % ("true" if rt else "false", " || ".join(enc_dict(d, fl, live.tables) for d in ds))
        if str(case.get("class", "")).startswith("inv-model-roundtrip"):
            return rt is not True, {"roundtrip": rt, "exc": exc}
        if "model_line" in case:
            return obs != case["model_line"], {"impl": obs[:300], "model": case["model_line"][:300]}
        return False, "no stored model observation"
    if kind == "inv-text-read":
        obs, exc = live.obs_text_read(case["lines"])
    elif kind == "inv-llsd-read":
        obs, exc = live.obs_llsd_read([dec_dict(x) for x in case["dicts"]], case["flavour"])
    elif kind == "inv-eq":
        obs = "true" if live.build(case["a"]) == live.build(case["b"]) else "false"
    elif kind == "inv-add":
        obs = live.obs_add(case["nodes"])
    else:
        return False, "unknown case kind %r" % kind
    if "model_line" in case:
        return obs != case["model_line"], {"impl": obs[:300], "model": case["model_line"][:300]}
    return False, "no stored model observation"
