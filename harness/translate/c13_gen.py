"""(G) translator for C13: walk the live ObjectUpdateCompressedDataSerializer.TEMPLATE and the live
FastObjectUpdateCompressedDataDeserializer class and emit coq/gen/C13_gen.v

  current_template : list field      -- names, primitive kinds/widths, gates (flag field + mask), order
  current_cfg      : fast_cfg        -- struct formats, flag constants, PCode constants, and the kinds of the
                                        spec objects the fast path hands to reader.read()
  shapes           : N -> shape      -- how each opaque self-delimiting reader delimits itself (used only by the
                                        extracted concrete instance)

Anything the Gallina model has no constructor for raises Unsupported (fail closed: the check reports a failed
generated obligation instead of silently approximating).
Opaque spec objects are numbered by *object identity* in order of first encounter, so "both decoders call the same
reader on the same bytes" is checked here: a different spec object on either side gets a different number and the
Coq agreement proof fails.
"""
from __future__ import annotations

import hashlib
import inspect
import os
import re


class Unsupported(Exception):
    pass


def _q(s: str) -> str:
    if '"' in s or "\\" in s or not s.isascii():
        raise Unsupported(f"field name {s!r}")
    return '(nm "%s")' % s


def _z(i: int) -> str:
    return "(%d)%%Z" % i


def _b(x: bool) -> str:
    return "true" if x else "false"


class Walker:
    def __init__(self):
        import hippolyzer.lib.base.serialization as se
        import hippolyzer.lib.base.templates as tmpls
        self.se = se
        self.tmpls = tmpls
        self.ids = {}       # id(obj) -> n
        self.keep = []      # keep objects alive so id() stays unique
        self.names = {}     # n -> description
        self.shapes = {}    # n -> Coq shape term (only for ids used as KSub)

    # -- numbering of opaque spec objects
    def opaque_id(self, obj) -> int:
        k = id(obj)
        if k not in self.ids:
            self.ids[k] = len(self.ids)
            self.keep.append(obj)
            self.names[self.ids[k]] = self.describe(obj)
        return self.ids[k]

    def describe(self, obj) -> str:
        for mod in (self.tmpls, self.se):
            for name, val in vars(mod).items():
                if val is obj and name.isupper():
                    return f"{mod.__name__.split('.')[-1]}.{name}"
        return type(obj).__name__ if not isinstance(obj, type) else obj.__name__

    # -- primitives
    def pkind(self, spec) -> str:
        se = self.se
        if spec is se.UUID:
            return "PRaw 16"
        if isinstance(spec, se.SerializablePrimitive):
            fmt = spec._struct_fmt
            table = {"B": "PU 1", "H": "PU 2", "I": "PU 4", "b": "PS 1", "h": "PS 2", "i": "PS 4", "f": "PRaw 4"}
            if fmt in table:
                return table[fmt]
        raise Unsupported(f"primitive {spec!r}")

    def int_pkind(self, spec) -> str:
        p = self.pkind(spec)
        if not p.startswith(("PU", "PS")):
            raise Unsupported(f"integer primitive expected, got {spec!r}")
        return p

    def adapt(self, ad) -> str:
        se, tmpls = self.se, self.tmpls
        if type(ad) is se.IdentityAdapter:
            return "AdId"
        if type(ad) is se.IntFlag and ad._child_spec is None:
            return "AdId"       # flag_cls(val) == val for val >= 0; val < 0 stays
        if type(ad) is tmpls.AttachmentStateAdapter:
            return "AdRot %s %s" % (_z(ad.OFFSET), _z(ad.MASK))
        raise Unsupported(f"context option adapter {ad!r}")

    def frame(self, bt) -> str:
        se = self.se
        if type(bt) is se.ByteArray:
            if bt._len_spec is not se.U32:
                raise Unsupported("ByteArray length spec other than U32")
            return "FU32"
        if type(bt) is se.BytesFixed:
            return "(FFixed %d)" % bt._size
        if type(bt) is se.BytesTerminated:
            self.check_term(bt)
            return "FTerm"
        raise Unsupported(f"bytes template {bt!r}")

    def check_term(self, bt):
        if tuple(bt.terminators) != (b"\x00",) or not bt.write_terminator or not bt.eof_terminates:
            raise Unsupported("BytesTerminated other than ((00), write_terminator, eof_terminates)")

    def kind(self, spec) -> str:
        se, tmpls = self.se, self.tmpls
        if isinstance(spec, se.OptionalFlagged):
            raise Unsupported("nested OptionalFlagged")
        if spec is se.UUID or isinstance(spec, se.SerializablePrimitive):
            return "KPrim (%s)" % self.pkind(spec)
        if type(spec) is se.IntEnum:
            if spec._strict:
                raise Unsupported("strict IntEnum")
            return "KPrim (%s)" % self.int_pkind(spec._child_spec)
        if type(spec) is se.IntFlag:
            return "KPrim (%s)" % self.int_pkind(spec._child_spec)
        if isinstance(spec, type) and issubclass(spec, se.TupleCoord) and not issubclass(spec, se.EncodedTupleCoord):
            return "KTuple %d (%s)" % (spec.NUM_ELEMS, self.pkind(spec.ELEM_SPEC))
        if type(spec) is se.PackedQuat:
            c = spec._child_spec
            if not (isinstance(c, type) and issubclass(c, se.TupleCoord) and not issubclass(c, se.EncodedTupleCoord)):
                raise Unsupported("PackedQuat over an encoded coordinate")
            if c.NUM_ELEMS != 3:
                raise Unsupported("PackedQuat over other than 3 elements")   # Quaternion(x, y, z) from the three reads
            return "KTuple %d (%s)" % (c.NUM_ELEMS, self.pkind(c.ELEM_SPEC))
        if type(spec) is tmpls.Color4:
            return "KColor %s" % self.color_inv(spec)
        if isinstance(spec, se.ContextAdapter):
            return self.ctx_adapter(spec)
        if type(spec) is se.CStr:
            self.check_term(spec._bytes_tmpl)
            if spec._encoding.lower().replace("-", "") != "utf8":
                raise Unsupported("CStr encoding")
            return "KCStr"
        if type(spec) is se.ByteArray:
            if spec._len_spec is not se.U32:
                raise Unsupported("ByteArray length spec other than U32")
            return "KBytes"
        if isinstance(spec, se.TypedBytesBase):
            if type(spec) not in (se.TypedByteArray, se.TypedBytesFixed, se.TypedBytesTerminated):
                raise Unsupported(f"typed bytes {type(spec).__name__}")
            if not spec._check_trailing_bytes:
                raise Unsupported("check_trailing_bytes=False")
            fr = self.frame(spec._bytes_tmpl)
            n = self.opaque_id(spec._spec)
            eis = bool(spec._empty_is_none)
            skip = False
            if eis:
                # live probe: does serialising None write nothing at all (no length prefix / terminator)?
                w = se.BufferWriter("<")
                spec.serialize(None, w, None)
                skip = len(w) == 0
                if skip and fr != "FTerm":
                    raise Unsupported("None written as nothing for a non-terminated window")
            return "KTyped %s %d %s %s %s" % (fr, n, _b(eis), _b(bool(spec._lazy)), _b(skip))
        # everything else: an opaque self-delimiting reader on the main buffer
        n = self.opaque_id(spec)
        self.shapes[n] = self.shape(spec)
        return "KSub %d" % n

    def color_inv(self, spec) -> str:
        if spec.invert_alpha:
            raise Unsupported("Color4(invert_alpha=True)")
        bt = spec._child_spec
        if type(bt) is not self.se.BytesFixed or bt._size != 4:
            raise Unsupported("Color4 child")
        return _b(bool(spec.invert_bytes))

    def ctx_adapter(self, spec) -> str:
        se = self.se

        class Probe:
            def __init__(self):
                object.__setattr__(self, "seen", [])

            def __getattr__(self, item):
                self.seen.append(item)
                return 0

            def __getitem__(self, item):
                self.seen.append(item)
                return 0

        p = Probe()
        spec._fun(p)
        if len(p.seen) != 1 or not isinstance(p.seen[0], str):
            raise Unsupported("context function is not a single field lookup")
        opts = []
        dflt = None
        for k, ad in spec._options.items():
            if k is se.MISSING:
                dflt = self.adapt(ad)
            else:
                opts.append("(%s, %s)" % (_z(int(k)), self.adapt(ad)))
        if dflt is None:
            raise Unsupported("ContextAdapter without a MISSING option")
        pk = self.int_pkind(spec._child_spec)
        if not pk.startswith("PU"):
            raise Unsupported("ContextAdapter over a signed primitive")
        return "KCtx %s [%s] (%s) (%s)" % (_q(p.seen[0]), "; ".join(opts), dflt, pk)

    def shape(self, spec) -> str:
        se = self.se
        if type(spec) is se.LengthSwitch:
            return "ShRest"
        if type(spec) is se.DictAdapter and type(spec._child_spec) is se.Collection:
            coll = spec._child_spec
            es = coll._entry_ser
            widths = {"B": 1, "H": 2, "I": 4}
            if (isinstance(coll._len_spec, se.SerializablePrimitive) and coll._len_spec._struct_fmt == "B"
                    and type(es) is se.EnumSwitch and type(es._enum_spec) is se.IntEnum
                    and isinstance(es._enum_spec._child_spec, se.SerializablePrimitive)
                    and es._enum_spec._child_spec._struct_fmt in widths
                    and all(type(v) is se.TypedByteArray and v._bytes_tmpl._len_spec._struct_fmt in widths
                            for v in es._choice_specs.values())):
                lens = {widths[v._bytes_tmpl._len_spec._struct_fmt] for v in es._choice_specs.values()}
                if len(lens) == 1:
                    return "ShColl 1 %d %d" % (widths[es._enum_spec._child_spec._struct_fmt], lens.pop())
        raise Unsupported(f"no concrete framing known for opaque reader {self.describe(spec)}")

    # -- the template
    def fields(self, template):
        se = self.se
        if type(template) is not se.Template or template._skip_missing:
            raise Unsupported("TEMPLATE is not a plain se.Template")
        out = []
        for name, spec in template._template_spec.items():
            gate = "None"
            inner = spec
            if isinstance(spec, se.OptionalFlagged):
                fs = spec._flag_spec
                ok = isinstance(fs, se.SerializablePrimitive) or (type(fs) is se.IntFlag and isinstance(fs._child_spec, se.SerializablePrimitive))
                if not ok:
                    raise Unsupported("OptionalFlagged flag spec")
                gate = "(Some (%s, %s))" % (_q(spec._flag_field), _z(spec._flag_val))
                inner = spec._ser_spec
            elif getattr(spec, "OPTIONAL", False):
                raise Unsupported(f"optional field type {type(spec).__name__}")
            out.append((name, gate, self.kind(inner)))
        return out


def struct_fmt(fmt: str):
    if not fmt.startswith("<"):
        raise Unsupported(f"struct format {fmt!r} is not little-endian/packed")
    items = []
    table = {"B": "PU 1", "H": "PU 2", "I": "PU 4", "b": "PS 1", "h": "PS 2", "i": "PS 4", "f": "PRaw 4"}
    for m in re.finditer(r"(\d*)([A-Za-z?])", fmt[1:]):
        cnt, code = m.group(1), m.group(2)
        if code == "s":
            items.append("PRaw %d" % int(cnt or "1"))
        elif code in table:
            items += [table[code]] * int(cnt or "1")
        else:
            raise Unsupported(f"struct code {code!r} in {fmt!r}")
    if "".join(m.group(0) for m in re.finditer(r"(\d*)([A-Za-z?])", fmt[1:])) != fmt[1:]:
        raise Unsupported(f"struct format {fmt!r}")
    return "[" + "; ".join(items) + "]"


# fast_read (Compressed/Model.v) is a hand transcription of exactly this text: the whole classes
# FastObjectUpdateCompressedDataDeserializer (read() and its struct constants) and SimpleStructReader (read_struct,
# read_bytes_null_term - the helpers read() calls).  sha1 of their sources at the time of transcription; any other
# text makes the check fail closed (harness/props/c13.py: generate) until the transcription has been re-done.
TRANSCRIBED_SOURCES_SHA1 = ("2b897455297828745ac3f6cb338a11c91d4c228b",)


def fast_sources_sha1():
    from hippolyzer.lib.base import objects
    txt = inspect.getsource(objects.SimpleStructReader) + "\n" + inspect.getsource(objects.FastObjectUpdateCompressedDataDeserializer)
    return hashlib.sha1(txt.encode()).hexdigest()


def generate(coq_dir: str):
    import hippolyzer.lib.base.serialization as se
    import hippolyzer.lib.base.templates as tmpls
    from hippolyzer.lib.base.objects import FastObjectUpdateCompressedDataDeserializer as F

    w = Walker()
    fields = w.fields(tmpls.ObjectUpdateCompressedDataSerializer.TEMPLATE)

    CF = tmpls.CompressedFlags
    cfg = [
        ("c_header", struct_fmt(F.HEADER_STRUCT.format)),
        ("c_angvel", struct_fmt(F.ANGULAR_VELOCITY_STRUCT.format)),
        ("c_parent", struct_fmt(F.PARENT_ID_STRUCT.format)),
        ("c_tree", struct_fmt(F.TREE_SPECIES_STRUCT.format)),
        ("c_dplen", struct_fmt(F.DATAPACKER_LEN.format)),
        ("c_sound", struct_fmt(F.SOUND_STRUCT.format)),
        ("c_prim", struct_fmt(F.PRIM_PARAMS_STRUCT.format)),
        ("c_color_inv", w.color_inv(F.COLOR_ADAPTER)),
        ("c_k_psold", "(%s)" % w.kind(F.PARTICLES_OLD)),
        ("c_k_extra", "(%s)" % w.kind(tmpls.EXTRA_PARAM_COLLECTION)),
        # whichever name-values template object read() refers to (by name in its code object)
        ("c_k_nv", "(%s)" % w.kind(getattr(tmpls, next(
            (n for n in F.read.__code__.co_names if "NAMEVALUES" in n and hasattr(tmpls, n)),
            "NAMEVALUES_TERMINATED_TEMPLATE")))),
        ("c_k_te", "(%s)" % w.kind(tmpls.DATA_PACKER_TE_TEMPLATE)),
        # built inline in read(): se.TypedByteArray(se.U32, tmpls.TA_TEMPLATE)
        ("c_k_ta", "(%s)" % w.kind(se.TypedByteArray(se.U32, tmpls.TA_TEMPLATE))),
        ("c_k_psnew", "(%s)" % w.kind(tmpls.PSBLOCK_TEMPLATE)),
        ("c_f_angvel", _z(CF.ANGULAR_VELOCITY.value)),
        ("c_f_parent", _z(CF.PARENT_ID.value)),
        ("c_f_tree", _z(CF.TREE.value)),
        ("c_f_scratch", _z(CF.SCRATCHPAD.value)),
        ("c_f_text", _z(CF.TEXT.value)),
        ("c_f_media", _z(CF.MEDIA_URL.value)),
        ("c_f_particles", _z(CF.PARTICLES.value)),
        ("c_f_sound", _z(CF.SOUND.value)),
        ("c_f_nv", _z(CF.NAME_VALUES.value)),
        ("c_f_ta", _z(CF.TEXTURE_ANIM.value)),
        ("c_f_psnew", _z(CF.PARTICLES_NEW.value)),
        ("c_pc_avatar", _z(int(tmpls.PCode.AVATAR))),
        ("c_pc_prim", _z(int(tmpls.PCode.PRIMITIVE))),
        ("c_att", "(%s)" % w.adapt(F.ATTACHMENT_STATE_ADAPTER)),
    ]

    lines = [
        "(* GENERATED by harness/translate/c13_gen.py from the live objects in the repo under test - do not edit. *)",
        "From Coq Require Import NArith ZArith List String.",
        "Local Open Scope string_scope.",
        "From HV Require Import Compressed.Model.",
        "Import ListNotations.",
        "Local Open Scope N_scope.",
        "",
        "(* opaque spec objects, numbered by object identity in order of first encounter:",
    ]
    for n in sorted(w.names):
        lines.append("   %d = %s" % (n, w.names[n]))
    lines.append("*)")
    lines.append("")
    lines.append("Definition current_template : list field := Eval vm_compute in [")
    lines.append(";\n".join("  mkField %s %s (%s)" % (_q(n), g, k) for n, g, k in fields))
    lines.append("].")
    lines.append("")
    lines.append("Definition current_cfg : fast_cfg := Eval vm_compute in {|")
    lines.append(";\n".join("  %s := %s" % kv for kv in cfg))
    lines.append("|}.")
    lines.append("")
    lines.append("Definition shapes (id : N) : shape :=")
    lines.append("  match id with")
    for n in sorted(w.shapes):
        lines.append("  | %d => %s" % (n, w.shapes[n]))
    lines.append("  | _ => ShRest")
    lines.append("  end.")
    lines.append("")
    txt = "\n".join(lines)
    os.makedirs(os.path.join(coq_dir, "gen"), exist_ok=True)
    path = os.path.join(coq_dir, "gen", "C13_gen.v")
    old = open(path).read() if os.path.exists(path) else None
    if old != txt:
        with open(path, "w") as f:
            f.write(txt)
    src_sha = fast_sources_sha1()
    return {
        "fields": fields,
        "n_fields": len(fields),
        "n_gated": sum(1 for _, g, _ in fields if g != "None"),
        "opaque": dict(w.names),
        "sub_ids": sorted(w.shapes),
        "read_sha1": src_sha,
        "read_sha1_matches_transcription": src_sha in TRANSCRIBED_SOURCES_SHA1,
        "path": path,
    }
