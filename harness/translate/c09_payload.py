"""C09 (G) translator for the byte-payload clauses.

Walks the LIVE registry of byte-payload subfield serializers (se.SUBFIELD_SERIALIZERS entries whose message variable
is Variable / Fixed), enumerates for each the context values that select a sub-template (harness/translate/c09_values.
contexts_for: every TEMPLATES key of an EnumSwitched serializer, every subset of the switch flags of a FlagSwitched one -
its Template is built by the real `_build_template`), translates every spec tree with C08's fail-closed translator
(harness/translate/c08_registry.Translator) into a Spec term and writes coq/gen/C09_payload_gen.v:

    Definition pay_<i> : spec := <term>.
    Example pay_<i>_frag : (wf pay_<i>, sound_frag pay_<i>, canon pay_<i>, simple_ok pay_<i> <EMPTY_IS_NONE>) = (...).   vm_compute
    Definition payload_registry : list (spec * bool) := [ every (pay_<i>, EMPTY_IS_NONE) inside the fragment ].
    Theorem C09_payload_registry_ok          : forallb frag_ok payload_registry = true.                           vm_compute
    Theorem C09_payload_registry_fixed_point : ... (payload_registry_fixed_point instantiated)
    Theorem C09_payload_registry_own_output  : ... (payload_registry_own_output instantiated)

The booleans on the right-hand side of every `_frag` example are PREDICTED here by a mirror of Spec.wf / SpecSound.
sound_frag / canon (below); Coq re-computes them, so a wrong prediction (or a spec that left the fragment) makes the
obligation fail - nothing is claimed on the strength of this file alone.  The real objects stay attached to the nodes,
so the correspondence of harness/props/c09.py runs the real registered serializers against the extracted model."""
from __future__ import annotations

import os
from typing import Any, Dict, List, Optional, Tuple

from harness.translate import c08_registry as R
from harness.translate import c08_specs as S
from harness.translate import c09_values


# ------------------------------------------------------------------ mirror of SpecSound.v

def is_bit(f: int) -> bool:
    return 0 < f < (1 << 64) and f & (f - 1) == 0


def flags_ok(tbl) -> bool:
    names = [n for n, _ in tbl]
    return len(set(names)) == len(names) and all(is_bit(int(z)) for _, z in tbl)


def sa_sound(ad) -> bool:
    if ad[0] in ("bool", "opaque"):
        return True
    if ad[0] == "enum":
        names = [n for n, _ in ad[2]]
        return len(set(names)) == len(names)
    if ad[0] == "flag":
        return flags_ok(ad[1])
    return False


def bf_entries_ok(ents, shift: bool) -> bool:
    first = True
    for _, bits, fa in ents:
        if fa is not None:
            if fa[0] == "bool":
                if not (bits > 0 and (shift or first)):
                    return False
            elif not sa_sound(fa):
                return False
        first = False
    return True


BITFIELDS_PROVED = True       # SpecSound.ad_sound covers BitField over an unsigned primitive (bf_law)


def ad_sound(ad, child) -> bool:
    if child.k != "prim" or child.a[0] == "f":
        return False
    if ad[0] == "bitfield":
        if not BITFIELDS_PROVED or child.a[0] != "u":
            return False
        return bf_entries_ok(ad[2], bool(ad[1])) and sum(b for _, b, _ in ad[2]) <= 8 * child.a[1]
    return sa_sound(ad)


def canon(n) -> bool:
    k, a = n.k, n.a
    if k in ("prim", "bytearray", "bytesfixed", "bytesgreedy", "uuid", "null"):
        return True
    if k in ("bytesterm", "str", "strfixed", "cstr", "opt", "ifpresent"):
        return False
    if k in ("tuple", "coord", "template", "dataclass", "lenswitch", "enumswitch"):
        return all(canon(c) for c in n.ch)
    if k == "coll":
        lk = a[0]
        return canon(n.ch[0]) and not (lk[0] == "prefixed" and lk[1])
    if k == "adapter":
        return a[0][0] in ("enum", "flag", "opaque") and canon(n.ch[0])
    if k == "typed":
        tk, en, ct = a
        return canon(n.ch[0]) and ct and not en and tk[0] != "term"
    if k == "optflagged":
        return canon(n.ch[0])
    return False


def sound_frag(n) -> bool:
    k, a = n.k, n.a
    if k in ("prim", "bytearray", "bytesfixed", "bytesgreedy", "bytesterm", "strfixed", "cstr", "uuid", "null"):
        return True
    if k == "str":
        return not a[2]
    if k in ("tuple", "coord", "template", "dataclass"):
        return all(sound_frag(c) for c in n.ch)
    if k in ("coll", "opt", "ifpresent", "optflagged"):
        return sound_frag(n.ch[0])
    if k == "adapter":
        return ad_sound(a[0], n.ch[0])
    if k == "typed":
        tk, en, ct = a
        c = n.ch[0]
        if not (sound_frag(c) and (ct or S.delimited(c))):
            return False
        if tk[0] == "greedy":
            return True
        if tk[0] == "fixed":
            return (not en) and ct and canon(c)
        return ct and canon(c)
    if k == "lenswitch":
        return all(sound_frag(c) and (canon(c) or (kk is not None and S.exact_size(c) == kk)) for kk, c in zip(a[0], n.ch))
    if k == "enumswitch":
        names = [x for x, _ in a[0]]
        return len(set(names)) == len(names) and all(sound_frag(c) for c in n.ch)
    return False


def simple_ok(n, empty_none: bool) -> bool:
    return (not empty_none) or S.min_size(n) > 0 or canon(n)


def why_outside(n) -> str:
    """first constructor that keeps the tree out of the fragment (for the evidence notes)"""
    if not S.wf(n):
        return "not wf"
    for x in n.walk():
        if x.k == "adapter" and not ad_sound(x.a[0], x.ch[0]):
            return "adapter:" + x.a[0][0]
        if x.k == "str" and x.a[2]:
            return "Str(null_term=True)"
        if x.k in ("typed", "lenswitch", "enumswitch") and all(sound_frag(c) for c in x.ch) and not sound_frag(x):
            return x.k + " around a non-canonical member"
        if x.k not in ("prim", "bytearray", "bytesfixed", "bytesgreedy", "bytesterm", "strfixed", "cstr", "uuid", "null", "str",
                       "tuple", "coord", "template", "dataclass", "coll", "opt", "ifpresent", "optflagged", "adapter", "typed",
                       "lenswitch", "enumswitch"):
            return x.k
    return "?"


# ------------------------------------------------------------------ the walk

class Entry:
    def __init__(self, index, keytxt, key, ctxvars, ser, spec, node, why, empty_none):
        self.index = index
        self.keytxt = keytxt
        self.key = key
        self.ctxvars = ctxvars
        self.ser = ser
        self.spec = spec
        self.node = node            # None: not translated
        self.why = why
        self.empty_none = empty_none
        if node is not None:
            self.wf = S.wf(node)
            self.sound = sound_frag(node)
            self.canon = canon(node)
            self.simple_ok = simple_ok(node, empty_none)
            self.inside = self.wf and self.sound and self.simple_ok
        else:
            self.wf = self.sound = self.canon = self.simple_ok = self.inside = False

    @property
    def label(self):
        if not self.ctxvars:
            return self.keytxt
        return "%s{%s}" % (self.keytxt, ",".join("%s=%s" % kv for kv in sorted(self.ctxvars.items())))

    def ctxsig(self):
        return tuple(sorted(self.ctxvars.items()))


_CACHE: Dict[int, List[Entry]] = {}


def entries(reg) -> List[Entry]:
    """one Entry per (byte-payload key, context value that selects a spec); cached per registry object"""
    if id(reg) in _CACHE:
        return _CACHE[id(reg)]
    import hippolyzer.lib.base.serialization as se
    tr = R.Translator()
    out: List[Entry] = []
    for e in reg.entries:
        if e.inert or e.modelled or e.vtype not in ("MVT_VARIABLE", "MVT_FIXED"):
            continue
        ser = e.serializer
        keytxt = ".".join(e.key)
        empty_none = bool(getattr(ser, "EMPTY_IS_NONE", False)) and isinstance(ser, type) and issubclass(ser, se.SimpleSubfieldSerializer)
        plain = (getattr(ser, "ENDIANNESS", "<") == "<" and bool(getattr(ser, "CHECK_TRAILING_BYTES", True))
                 and (not (isinstance(ser, type) and issubclass(ser, se.EnumSwitchedSubfieldSerializer)) or bool(ser.STRICT)))
        for ctxvars, spec in c09_values.contexts_for(ser):
            node, why = None, ""
            if spec is None:
                why = "no spec for this context value (UNSERIALIZABLE / absent / adapter-only serializer)"
            elif not plain:
                why = "wrapper options outside the model (ENDIANNESS / CHECK_TRAILING_BYTES / non-strict switch)"
            else:
                try:
                    tr.stack = []
                    node = tr.tr(spec)
                    node.x["regname"] = keytxt
                except R.Unsupported as ex:
                    why = "not translated: " + str(ex)
                except Exception as ex:       # fail closed
                    why = "translator error: %s: %s" % (type(ex).__name__, str(ex)[:80])
            out.append(Entry(len(out), keytxt, e.key, dict(ctxvars), ser, spec, node, why, empty_none))
    _CACHE.clear()
    _CACHE[id(reg)] = out
    return out


# ------------------------------------------------------------------ Coq output

def _b(x) -> str:
    return "true" if x else "false"


def write_gen(path: str, ents: List[Entry]) -> List[dict]:
    lines = ["(* GENERATED on every run by harness/translate/c09_payload.py from the live registry of /repo - do not edit. *)",
             "From Coq Require Import NArith ZArith List Bool.",
             "From HV Require Import Base.Bytes Spec.Spec Spec.SpecSound Spec.SpecSoundProofs.",
             "Import ListNotations.",
             "Open Scope N_scope.", ""]
    obls = []
    inside = []
    for en in ents:
        if en.node is None:
            continue
        i = en.index
        lines.append("(* %s  EMPTY_IS_NONE=%s%s *)" % (en.label.replace("*)", "* )"), _b(en.empty_none),
                                                       "" if en.inside else "  -- OUTSIDE the proved fragment: " + why_outside(en.node)))
        lines.append("Definition pay_%d : spec := %s." % (i, R.coq_term(en.node)))
        lines.append("Example pay_%d_frag : (wf pay_%d, sound_frag pay_%d, canon pay_%d, simple_ok pay_%d %s) = (%s, %s, %s, %s). "
                     "Proof. vm_compute. reflexivity. Qed." % (i, i, i, i, i, _b(en.empty_none), _b(en.wf), _b(en.sound), _b(en.canon),
                                                               _b(en.simple_ok)))
        lines.append("")
        if en.inside:
            inside.append(en)
        obls.append({"name": "payload[%s] wf/sound_frag/canon/simple_ok = %s/%s/%s/%s" % (en.label, _b(en.wf), _b(en.sound), _b(en.canon),
                                                                                          _b(en.simple_ok)),
                     "detail": "%d nodes; %s" % (en.node.size(), "byte-payload theorems instantiated" if en.inside
                                                 else "outside the fragment (" + why_outside(en.node) + "): oracle only")})
    lines.append("Definition payload_registry : list (spec * bool) :=")
    lines.append("  [" + "; ".join("(pay_%d, %s)" % (en.index, _b(en.empty_none)) for en in inside) + "].")
    lines.append("")
    lines.append("Theorem C09_payload_registry_ok : forallb frag_ok payload_registry = true.")
    lines.append("Proof. vm_compute. reflexivity. Qed.")
    lines.append("")
    lines.append("(* every registered byte-payload serializer inside the fragment, every endianness / form / accepted byte string:")
    lines.append("   one decode-encode pass reaches a fixed point that decodes to the same value *)")
    lines.append("Theorem C09_payload_registry_fixed_point : forall s en, In (s, en) payload_registry ->")
    lines.append("  forall e pod b v, bytes_okb b = true -> simple_decode e pod s en b = Some v ->")
    lines.append("  exists b', simple_encode e s en v = Some b' /\\ simple_decode e pod s en b' = Some v /\\")
    lines.append("             (forall v2, simple_decode e pod s en b' = Some v2 -> simple_encode e s en v2 = Some b').")
    lines.append("Proof. exact (payload_registry_fixed_point payload_registry C09_payload_registry_ok). Qed.")
    lines.append("Print Assumptions C09_payload_registry_fixed_point.")
    lines.append("")
    lines.append("(* ... and whatever it writes itself survives decode-encode byte-for-byte *)")
    lines.append("Theorem C09_payload_registry_own_output : forall s en, In (s, en) payload_registry ->")
    lines.append("  forall e pod v b, (en && is_none v = true \\/ domb e pod s [] v = true) -> simple_encode e s en v = Some b ->")
    lines.append("  exists v', simple_decode e pod s en b = Some v' /\\ simple_encode e s en v' = Some b.")
    lines.append("Proof. exact (payload_registry_own_output payload_registry C09_payload_registry_ok). Qed.")
    lines.append("Print Assumptions C09_payload_registry_own_output.")
    lines.append("")
    lines.append("(* not translated (fail-closed, nothing is claimed; decided by the implementation-level oracle):")
    for en in ents:
        if en.node is None:
            lines.append(("   %s: %s" % (en.label, en.why)).replace("*)", "* )"))
    lines.append("*)")
    os.makedirs(os.path.dirname(path), exist_ok=True)
    with open(path, "w") as f:
        f.write("\n".join(lines) + "\n")
    obls.append({"name": "payload registry: forallb frag_ok = true, fixed-point + own-output theorems instantiated",
                 "detail": "%d (key, context) spec trees inside the fragment" % len(inside)})
    return obls


def summary(ents: List[Entry]) -> Dict[str, Any]:
    keys = sorted({en.keytxt for en in ents})
    per_key = {}
    for k in keys:
        es = [en for en in ents if en.keytxt == k]
        with_spec = [en for en in es if en.spec is not None]
        per_key[k] = {"contexts": len(es), "with_spec": len(with_spec),
                      "translated": sum(1 for en in es if en.node is not None),
                      "inside": sum(1 for en in es if en.inside),
                      "canonical": sum(1 for en in es if en.inside and en.canon)}
    full = [k for k, d in per_key.items() if d["with_spec"] and d["inside"] == d["with_spec"]]
    partial = [k for k, d in per_key.items() if 0 < d["inside"] < d["with_spec"]]
    none = [k for k, d in per_key.items() if d["inside"] == 0]
    return {"per_key": per_key, "full": full, "partial": partial, "none": none}
