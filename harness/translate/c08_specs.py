"""C08 - spec trees: one Python description (Node) from which we build (a) the REAL combinator
object of hippolyzer.lib.base.serialization, (b) the s-expression term for the extracted Coq
model, (c) values of the derived domain / violating values, (d) the spec-directed translation
of Python values to model values and back.

Names: template key n <-> "f<n>", enum member n <-> "E<n>", flag member n <-> "F<n>".
Numbers in s-expressions are hexadecimal; byte strings are hex atoms ("-" = empty)."""
import enum
import struct

_se = None
_dt = None


def mods():
    global _se, _dt
    if _se is None:
        import hippolyzer.lib.base.serialization as se
        import hippolyzer.lib.base.datatypes as dt
        _se, _dt = se, dt
    return _se, _dt


class Node:
    """k: kind, a: attributes (what goes into the model term), ch: children, x: Python-side extras that do not reach
    the model (real key / member names, enum and data classes, constructor parameters of opaque adapters)"""
    __slots__ = ("k", "a", "ch", "_obj", "x")

    def __init__(self, k, a=(), ch=(), x=None, obj=None):
        self.k = k
        self.a = tuple(a)
        self.ch = list(ch)
        self._obj = obj
        self.x = x or {}

    def __repr__(self):
        return sexp(self)

    def walk(self):
        yield self
        for c in self.ch:
            yield from c.walk()

    def size(self):
        return sum(1 for _ in self.walk())

    def depth(self):
        return 1 + max([c.depth() for c in self.ch], default=0)


def hx(n: int) -> str:
    return format(n, "x")


def hb(b) -> str:
    b = bytes(b)
    return b.hex() if b else "-"


def _ip(sg, w):
    return f"{'s' if sg else 'u'} {w}"


def _tbl(tbl):
    return " ".join(f"( {hx(n)} {hx(z)} )" for n, z in tbl)


def _ts(ts):
    return "( " + " ".join(hx(t) for t in ts) + " )" if ts else "( )"


def _adapter_sx(ad) -> str:
    if ad[0] == "bool":
        return "( bool )"
    if ad[0] == "enum":
        return f"( enum {int(ad[1])} {_tbl(ad[2])} )"
    if ad[0] == "flag":
        return f"( flag {_tbl(ad[1])} )"
    if ad[0] == "opaque":
        return f"( opaque {hx(ad[1])} )"
    if ad[0] == "bitfield":
        ents = " ".join(f"( {hx(n_)} {hx(bits)} {'( none )' if fa is None else _adapter_sx(fa)} )" for n_, bits, fa in ad[2])
        return f"( bitfield {int(ad[1])} {ents} )"
    raise ValueError(ad)


def sexp(n: Node) -> str:
    k, a = n.k, n.a
    ch = [sexp(c) for c in n.ch]
    if k == "prim":
        return f"( prim {a[0]} {a[1]} )"
    if k == "bytearray":
        return f"( bytearray {_ip(*a)} )"
    if k == "bytesfixed":
        return f"( bytesfixed {hx(a[0])} )"
    if k == "bytesgreedy":
        return "( bytesgreedy )"
    if k == "bytesterm":
        return f"( bytesterm {_ts(a[0])} {int(a[1])} {int(a[2])} )"
    if k == "str":
        return f"( str {_ip(a[0], a[1])} {int(a[2])} )"
    if k == "strfixed":
        return f"( strfixed {hx(a[0])} )"
    if k == "cstr":
        return f"( cstr {_ts(a[0])} {int(a[1])} {int(a[2])} )"
    if k == "uuid":
        return "( uuid )"
    if k == "null":
        return "( null )"
    if k == "tuple":
        return "( tuple " + " ".join(ch) + " )" if ch else "( tuple )"
    if k == "template":
        names, skip = a
        return f"( template {int(skip)} " + " ".join(f"( {hx(nm)} {c} )" for nm, c in zip(names, ch)) + " )"
    if k == "coll":
        lk = a[0]
        if lk[0] == "prefixed":
            ls = f"( prefixed {_ip(lk[1], lk[2])} )"
        elif lk[0] == "fixed":
            ls = f"( fixed {hx(lk[1])} )"
        else:
            ls = "( greedy )"
        return f"( coll {ls} {ch[0]} )"
    if k == "opt":
        return f"( opt {ch[0]} )"
    if k == "adapter":
        return f"( adapter {_adapter_sx(a[0])} {ch[0]} )"
    if k == "optflagged":
        f, ftbl, mask = a
        t = "( none )" if ftbl is None else "( " + _tbl(ftbl) + " )"
        return f"( optflagged {hx(f)} {t} {hx(mask)} {ch[0]} )"
    if k == "ctxswitch":
        f, keys = a
        return f"( ctxswitch {hx(f)} " + " ".join(f"( {'none' if kk is None else hx(kk)} {c} )" for kk, c in zip(keys, ch)) + " )"
    if k == "ctxadapter":
        f, opts = a
        os_ = " ".join(f"( {'none' if kk is None else hx(kk)} {'( none )' if ad is None else _adapter_sx(ad)} )" for kk, ad in opts)
        return f"( ctxadapter {hx(f)} ( {os_} ) {ch[0]} )"
    if k == "flagswitch":
        tbl, sg, w, choices = a
        return (f"( flagswitch ( {_tbl(tbl)} ) {_ip(sg, w)} "
                + " ".join(f"( {hx(nm)} {hx(z)} {c} )" for (nm, z), c in zip(choices, ch)) + " )")
    if k == "coord":
        return f"( coord {a[0]} " + " ".join(ch) + " )"
    if k == "dataclass":
        return "( dataclass " + " ".join(f"( {hx(nm)} {c} )" for nm, c in zip(a[0], ch)) + " )"
    if k == "typed":
        tk, en, ct = a
        if tk[0] == "greedy":
            s = "( greedy )"
        elif tk[0] == "array":
            s = f"( array {_ip(tk[1], tk[2])} )"
        elif tk[0] == "fixed":
            s = f"( fixed {hx(tk[1])} )"
        else:
            s = f"( term {_ts(tk[1])} {int(tk[2])} )"
        return f"( typed {s} {int(en)} {int(ct)} {ch[0]} )"
    if k == "ifpresent":
        return f"( ifpresent {ch[0]} )"
    if k == "lenswitch":
        keys = a[0]
        return "( lenswitch " + " ".join(f"( {'none' if kk is None else hx(kk)} {c} )" for kk, c in zip(keys, ch)) + " )"
    if k == "enumswitch":
        tbl, strict, sg, w, keys = a
        return (f"( enumswitch ( {_tbl(tbl)} ) {int(strict)} {_ip(sg, w)} "
                + " ".join(f"( {hx(z)} {c} )" for z, c in zip(keys, ch)) + " )")
    raise ValueError(k)


# ---------------------------------------------------------------- s-expression reader

def parse_sx(text: str):
    toks = text.split()
    pos = 0

    def one():
        nonlocal pos
        t = toks[pos]
        pos += 1
        if t == "(":
            out = []
            while toks[pos] != ")":
                out.append(one())
            pos += 1
            return out
        return t
    r = one()
    return r


def _pip(k, w):
    return (k == "s", int(w))


def _ptbl(l):
    return tuple((int(n, 16), int(z, 16)) for n, z in l)


def _padapter(ad):
    if ad[0] == "bool":
        return ("bool",)
    if ad[0] == "enum":
        return ("enum", ad[1] == "1", _ptbl(ad[2:]))
    if ad[0] == "flag":
        return ("flag", _ptbl(ad[1:]))
    if ad[0] == "opaque":
        # reconstructed from a term: a U-prim quantized float with a fixed range stands in for the instance
        return ("opaque", int(ad[1], 16))
    if ad[0] == "bitfield":
        return ("bitfield", ad[1] == "1",
                tuple((int(f[0], 16), int(f[1], 16), None if f[2] == ["none"] else _padapter(f[2])) for f in ad[2:]))
    raise ValueError(ad)


def node_of_sx(x) -> Node:
    h = x[0]
    if h == "prim":
        return Node("prim", (x[1], int(x[2])))
    if h == "bytearray":
        return Node("bytearray", _pip(x[1], x[2]))
    if h == "bytesfixed":
        return Node("bytesfixed", (int(x[1], 16),))
    if h == "bytesgreedy":
        return Node("bytesgreedy")
    if h in ("bytesterm", "cstr"):
        return Node(h, (tuple(int(t, 16) for t in x[1]), x[2] == "1", x[3] == "1"))
    if h == "str":
        return Node("str", _pip(x[1], x[2]) + (x[3] == "1",))
    if h == "strfixed":
        return Node("strfixed", (int(x[1], 16),))
    if h in ("uuid", "null"):
        return Node(h)
    if h == "tuple":
        return Node("tuple", (), [node_of_sx(c) for c in x[1:]])
    if h == "ctxswitch":
        cs = x[2:]
        return Node("ctxswitch", (int(x[1], 16), tuple(None if c[0] == "none" else int(c[0], 16) for c in cs)),
                    [node_of_sx(c[1]) for c in cs])
    if h == "ctxadapter":
        opts = tuple((None if o[0] == "none" else int(o[0], 16), None if o[1] == ["none"] else _padapter(o[1])) for o in x[2])
        return Node("ctxadapter", (int(x[1], 16), opts), [node_of_sx(x[3])])
    if h == "flagswitch":
        cs = x[4:]
        return Node("flagswitch", (_ptbl(x[1]),) + _pip(x[2], x[3]) + (tuple((int(c[0], 16), int(c[1], 16)) for c in cs),),
                    [node_of_sx(c[2]) for c in cs])
    if h == "coord":
        return Node("coord", (x[1],), [node_of_sx(c) for c in x[2:]])
    if h == "dataclass":
        fs = x[1:]
        return Node("dataclass", (tuple(int(f[0], 16) for f in fs),), [node_of_sx(f[1]) for f in fs])
    if h == "template":
        fs = x[2:]
        return Node("template", (tuple(int(f[0], 16) for f in fs), x[1] == "1"), [node_of_sx(f[1]) for f in fs])
    if h == "coll":
        lk = x[1]
        if lk[0] == "prefixed":
            l = ("prefixed",) + _pip(lk[1], lk[2])
        elif lk[0] == "fixed":
            l = ("fixed", int(lk[1], 16))
        else:
            l = ("greedy",)
        return Node("coll", (l,), [node_of_sx(x[2])])
    if h == "opt":
        return Node("opt", (), [node_of_sx(x[1])])
    if h == "adapter":
        return Node("adapter", (_padapter(x[1]),), [node_of_sx(x[2])])
    if h == "optflagged":
        return Node("optflagged", (int(x[1], 16), None if x[2] == ["none"] else _ptbl(x[2]), int(x[3], 16)),
                    [node_of_sx(x[4])])
    if h == "typed":
        tk = x[1]
        if tk[0] == "greedy":
            t = ("greedy",)
        elif tk[0] == "array":
            t = ("array",) + _pip(tk[1], tk[2])
        elif tk[0] == "fixed":
            t = ("fixed", int(tk[1], 16))
        else:
            t = ("term", tuple(int(q, 16) for q in tk[1]), tk[2] == "1")
        return Node("typed", (t, x[2] == "1", x[3] == "1"), [node_of_sx(x[4])])
    if h == "ifpresent":
        return Node("ifpresent", (), [node_of_sx(x[1])])
    if h == "lenswitch":
        cs = x[1:]
        return Node("lenswitch", (tuple(None if c[0] == "none" else int(c[0], 16) for c in cs),), [node_of_sx(c[1]) for c in cs])
    if h == "enumswitch":
        cs = x[6:]
        return Node("enumswitch", (_ptbl(x[1]), x[2] == "1") + _pip(x[3], x[4]) + (tuple(int(c[0], 16) for c in cs),),
                    [node_of_sx(c[1]) for c in cs])
    raise ValueError(h)


# ---------------------------------------------------------------- real combinator objects

def prim_obj(kind, w):
    se, _ = mods()
    return {("u", 1): se.U8, ("u", 2): se.U16, ("u", 4): se.U32, ("u", 8): se.U64,
            ("s", 1): se.S8, ("s", 2): se.S16, ("s", 4): se.S32, ("s", 8): se.S64,
            ("f", 4): se.F32, ("f", 8): se.F64}[(kind, w)]


def iprim_obj(sg, w):
    return prim_obj("s" if sg else "u", w)


_ENUMS = {}


def enum_cls(tbl):
    _, dt = mods()
    key = ("e", tbl)
    if key not in _ENUMS:
        _ENUMS[key] = dt.IntEnum("GenEnum%d" % len(_ENUMS), [("E%d" % n, z) for n, z in tbl])
    return _ENUMS[key]


def flag_extras(tbl):
    """composite members added to every second generated flag class: ALL = the OR of the single-bit members (an alias made of
    named bits) and MASK = two adjacent bits that NO member names (a multi-bit mask member, like a KIND_MASK).  Python does not
    iterate composite members, so they change nothing in the statement: named bits are shown by name, all other bits - the
    mask's included - travel in the left-over int."""
    vals = [z for _, z in tbl]
    if not vals or any(z <= 0 or z & (z - 1) for z in vals) or sum(vals) % 2 == 0 and len(vals) % 2 == 0:
        return []
    used = 0
    for z in vals:
        used |= z
    out = []
    if len(vals) >= 2:
        out.append(("ALL", used))
    for i in range(0, 7):
        if not used & (3 << i):
            out.append(("MASK", 3 << i))
            break
    return out


def flag_cls(tbl):
    _, dt = mods()
    key = ("f", tbl)
    if key not in _ENUMS:
        _ENUMS[key] = dt.IntFlag("GenFlag%d" % len(_ENUMS), [("F%d" % n, z) for n, z in tbl] + flag_extras(tbl))
    return _ENUMS[key]


def _terms(ts):
    return tuple(bytes([t]) for t in ts)


# quantized / fixed-point adapters the generator uses: the model only sees the id
OPAQUE_PRESETS = {
    0: ("quant", -1.0, 1.0), 1: ("quant", 0.0, 1.0), 2: ("quant", -256.0, 256.0), 3: ("quant", -64.0, 64.0),
    4: ("quant", 0.0, 255.0), 5: ("quant", -3.5, 12.25),
    8: ("fixed", 8, 8, False), 9: ("fixed", 8, 7, True), 10: ("fixed", 4, 4, False), 11: ("fixed", 16, 16, False),
    12: ("fixed", 3, 4, True),
}
COORDS = {"Vector3": 3, "Vector4": 4, "Vector3D": 3, "Vector3U16": 3, "Vector4U16": 4, "Vector3U8": 3, "Vector4U8": 4,
          "Vector2U16": 2, "FixedPointVector3U16": 3}


def key_name(i: int) -> str:
    return "f%d" % i


def tkeys(n: Node):
    """the Python dict keys / attribute names of a template or dataclass node"""
    if "keys" in n.x:
        return list(n.x["keys"])
    return [key_name(i) for i in n.a[0]]


def _build_sadapter(ad, child):
    se, _ = mods()
    if ad[0] == "bool":
        return se.BoolAdapter(child)
    if ad[0] == "enum":
        return se.IntEnum(enum_cls(ad[2]), child, strict=ad[1])
    if ad[0] == "flag":
        return se.IntFlag(flag_cls(ad[1]), child)
    raise ValueError(ad)


def _build_adapter(ad, child):
    se, _ = mods()
    if ad[0] == "opaque":
        pre = OPAQUE_PRESETS[ad[1]]
        if pre[0] == "quant":
            return se.QuantizedFloat(child, pre[1], pre[2])
        return se.FixedPoint(child, pre[1], pre[2], pre[3])
    if ad[0] == "bitfield":
        schema = {}
        for nm, bits, fa in ad[2]:
            schema["b%d" % nm] = bits if fa is None else se.BitfieldEntry(bits, _build_sadapter(fa, None))
        return se.BitField(child, schema, shift=ad[1])
    return _build_sadapter(ad, child)


def _build_coord(n: Node):
    se, _ = mods()
    name = n.a[0]
    cls = getattr(se, name)
    if name in ("Vector3", "Vector4", "Vector3D"):
        for c in n.ch:
            c._obj = cls.ELEM_SPEC
        return cls
    pre = OPAQUE_PRESETS[n.ch[0].a[0][1]]
    if name.startswith("FixedPoint"):
        o = cls(pre[1], pre[2], pre[3])
    else:
        o = cls(pre[1], pre[2])
    for c, spec in zip(n.ch, o._elem_specs):
        c._obj = spec
    return o


_DCS = {}


def _make_dataclass(n: Node, ch):
    import dataclasses
    se, _ = mods()
    if "data_cls" in n.x:
        return n.x["data_cls"]
    keys = tkeys(n)
    sig = (tuple(keys), tuple(id(c) for c in ch))
    if sig not in _DCS:
        _DCS[sig] = dataclasses.make_dataclass(
            "GenData%d" % len(_DCS), [(kk, object, se.dataclass_field(c)) for kk, c in zip(keys, ch)])
    n.x["data_cls"] = _DCS[sig]
    return _DCS[sig]


def build(n: Node):
    """the real serialization.py object for the tree"""
    if n._obj is not None:
        return n._obj
    se, _ = mods()
    k, a = n.k, n.a
    ch = [build(c) for c in n.ch]
    if k == "prim":
        o = prim_obj(*a)
    elif k == "bytearray":
        o = se.ByteArray(iprim_obj(*a))
    elif k == "bytesfixed":
        o = se.BytesFixed(a[0])
    elif k == "bytesgreedy":
        o = se.BytesGreedy()
    elif k == "bytesterm":
        o = se.BytesTerminated(_terms(a[0]), write_terminator=a[1], eof_terminates=a[2])
    elif k == "str":
        o = se.Str(iprim_obj(a[0], a[1]), null_term=a[2])
    elif k == "strfixed":
        o = se.StrFixed(a[0])
    elif k == "cstr":
        o = se.CStr(terminators=_terms(a[0]), write_terminator=a[1], eof_terminates=a[2])
    elif k == "uuid":
        o = se.UUID
    elif k == "null":
        o = se.Null
    elif k == "tuple":
        o = se.Tuple(*ch)
    elif k == "template":
        o = se.Template({kk: c for kk, c in zip(tkeys(n), ch)}, skip_missing=a[1])
    elif k == "coll":
        lk = a[0]
        length = iprim_obj(lk[1], lk[2]) if lk[0] == "prefixed" else (lk[1] if lk[0] == "fixed" else None)
        o = se.Collection(length, ch[0])
    elif k == "opt":
        o = se.OptionalPrefixed(ch[0])
    elif k == "adapter":
        o = _build_adapter(a[0], ch[0])
    elif k == "optflagged":
        f, ftbl, mask = a
        fspec = se.U32 if ftbl is None else se.IntFlag(flag_cls(ftbl), se.U32)
        o = se.OptionalFlagged(key_name(f), fspec, mask, ch[0])
    elif k == "ctxswitch":
        f, keys = a
        kn = key_name(f)
        o = se.ContextSwitch(lambda ctx, kn=kn: ctx[kn], {(se.MISSING if kk is None else kk): c for kk, c in zip(keys, ch)})
    elif k == "ctxadapter":
        f, opts = a
        kn = key_name(f)
        objs = [se.IdentityAdapter() if ad is None else _build_sadapter(ad, None) for _, ad in opts]
        n.x["opt_objs"] = objs
        o = se.ContextAdapter(lambda ctx, kn=kn: ctx[kn], ch[0],
                              {(se.MISSING if kk is None else kk): ob for (kk, _), ob in zip(opts, objs)})
    elif k == "flagswitch":
        tbl, sg, w, choices = a
        cls = flag_cls(tbl)
        o = se.FlagSwitch(se.IntFlag(cls, iprim_obj(sg, w)), {cls["F%d" % nm]: c for (nm, z), c in zip(choices, ch)})
    elif k == "coord":
        o = _build_coord(n)
    elif k == "dataclass":
        o = se.Dataclass(_make_dataclass(n, ch))
    elif k == "typed":
        tk, en, ct = a
        kw = dict(empty_is_none=en, check_trailing_bytes=ct)
        if tk[0] == "greedy":
            o = se.TypedBytesGreedy(ch[0], **kw)
        elif tk[0] == "array":
            o = se.TypedByteArray(iprim_obj(tk[1], tk[2]), ch[0], **kw)
        elif tk[0] == "fixed":
            o = se.TypedBytesFixed(tk[1], ch[0], **kw)
        else:
            o = se.TypedBytesTerminated(ch[0], _terms(tk[1]), skip_none=tk[2], **kw)
    elif k == "ifpresent":
        o = se.IfPresent(ch[0])
    elif k == "lenswitch":
        o = se.LengthSwitch({kk: c for kk, c in zip(a[0], ch)})
    elif k == "enumswitch":
        tbl, strict, sg, w, keys = a
        cls = enum_cls(tbl)
        by_val = {}
        for m in cls:
            by_val.setdefault(int(m), m)
        o = se.EnumSwitch(se.IntEnum(cls, iprim_obj(sg, w), strict=strict),
                          {by_val.get(z, z): c for z, c in zip(keys, ch)})
    else:
        raise ValueError(k)
    n._obj = o
    return o


# ---------------------------------------------------------------- static information (mirror of Spec.v)

def ip_range(sg, w):
    if sg:
        return -(1 << (8 * w - 1)), (1 << (8 * w - 1)) - 1
    return 0, (1 << (8 * w)) - 1


def delimited(n: Node) -> bool:
    k, a = n.k, n.a
    if k == "bytesgreedy":
        return False
    if k in ("bytesterm", "cstr"):
        return a[1]
    if k in ("tuple", "template", "enumswitch", "coord", "dataclass", "ctxswitch", "flagswitch"):
        return all(delimited(c) for c in n.ch)
    if k == "coll":
        lk = a[0]
        return lk[0] == "prefixed" or (lk[0] == "fixed" and lk[1] != 0)
    if k in ("opt", "adapter", "optflagged", "ctxadapter"):
        return delimited(n.ch[0])
    if k == "typed":
        if a[0][0] == "term":
            return not (a[1] and a[0][2])
        return a[0][0] != "greedy"
    if k in ("ifpresent", "lenswitch"):
        return False
    return True


def min_size(n: Node) -> int:
    k, a = n.k, n.a
    if k == "prim":
        return a[1]
    if k in ("bytearray", "str"):
        return a[1]
    if k in ("bytesfixed", "strfixed"):
        return a[0]
    if k in ("bytesterm", "cstr"):
        return 1 if a[1] else 0
    if k == "uuid":
        return 16
    if k in ("tuple", "template", "coord", "dataclass"):
        return sum(min_size(c) for c in n.ch)
    if k == "coll":
        lk = a[0]
        return lk[2] if lk[0] == "prefixed" else (lk[1] * min_size(n.ch[0]) if lk[0] == "fixed" else 0)
    if k == "opt":
        return 1
    if k in ("adapter", "ctxadapter"):
        return min_size(n.ch[0])
    if k == "flagswitch":
        return a[2]
    if k == "typed":
        tk = a[0]
        return tk[2] if tk[0] == "array" else (tk[1] if tk[0] == "fixed" else 0)
    if k == "enumswitch":
        return a[3]
    return 0


def _butlast(l):
    return all(l[:-1])


def _nodup(l):
    return len(set(l)) == len(l)


STAGE2 = ("ifpresent", "lenswitch", "enumswitch")


def exact_size(n: Node):
    """size of every encoding when it is the same for all values (mirror of calc_size, plus StrFixed/Null/fixed collections)"""
    k, a = n.k, n.a
    if k == "prim":
        return a[1]
    if k in ("bytesfixed", "strfixed"):
        return a[0]
    if k == "uuid":
        return 16
    if k == "null":
        return 0
    if k in ("tuple", "template", "coord", "dataclass"):
        t = 0
        for c in n.ch:
            s = exact_size(c)
            if s is None:
                return None
            t += s
        return t
    if k == "adapter":
        return exact_size(n.ch[0])
    return None


def refs(n: Node):
    """Spec.refs: sibling names the spec reads from its context (sequences and templates rebind it)"""
    k = n.k
    if k in ("optflagged", "ctxadapter"):
        return [n.a[0]] + refs(n.ch[0])
    if k == "ctxswitch":
        return [n.a[0]] + [r for c in n.ch for r in refs(c)]
    if k == "flagswitch":
        return [r for c in n.ch for r in refs(c)]
    if k in ("opt", "adapter", "typed", "ifpresent"):
        return refs(n.ch[0])
    if k in ("lenswitch", "enumswitch"):
        return [r for c in n.ch for r in refs(c)]
    return []


def wf(n: Node, ext=False) -> bool:
    """Spec.wf: side conditions of the proved round-trip theorems.  ext=True: additionally admit the stage-2
    combinators under their own side conditions (used by the impl-level oracle only)"""
    k, a = n.k, n.a
    if ext and k == "ifpresent":
        return wf(n.ch[0], ext) and min_size(n.ch[0]) > 0
    if ext and k == "lenswitch":
        keys = a[0]
        if not _nodup(list(keys)):
            return False
        for kk, c in zip(keys, n.ch):
            if not wf(c, ext):
                return False
            if kk is not None and exact_size(c) != kk:
                return False
        return True
    if ext and k == "enumswitch":
        tbl, strict, sg, w, keys = a
        lo, hi = ip_range(sg, w)
        return (all(wf(c, ext) for c in n.ch) and _nodup([x for x, _ in tbl]) and _nodup(list(keys))
                and all(lo <= z <= hi for z in keys))
    if k in ("bytesterm", "cstr"):
        return bool(a[0]) and (a[1] or a[2])
    if k in ("tuple", "coord"):
        return all(wf(c, ext) for c in n.ch) and _butlast([delimited(c) for c in n.ch])
    if k in ("template", "dataclass"):
        seen = []
        for nm, c in zip(a[0], n.ch):
            if any(r not in seen for r in refs(c)):
                return False
            seen.append(nm)
        return all(wf(c, ext) for c in n.ch) and _butlast([delimited(c) for c in n.ch]) and _nodup(a[0])
    if k in ("optflagged", "ctxadapter"):
        return wf(n.ch[0], ext)
    if k == "ctxswitch":
        return all(wf(c, ext) for c in n.ch)
    if k == "flagswitch":
        return (all(wf(c, ext) for c in n.ch) and _butlast([delimited(c) for c in n.ch])
                and _nodup([nm for nm, _ in a[3]]))
    if k == "coll":
        c = n.ch[0]
        lk = a[0]
        ok = wf(c, ext) and delimited(c)
        if lk[0] == "fixed":
            return ok and (lk[1] != 0 or min_size(c) > 0)
        if lk[0] == "greedy":
            return ok and min_size(c) > 0
        return ok
    if k == "opt":
        return wf(n.ch[0], ext)
    if k == "adapter":
        ad = a[0]
        if ad[0] == "bitfield":
            names = [x[0] for x in ad[2]]
        else:
            names = [x for x, _ in (ad[2] if ad[0] == "enum" else (ad[1] if ad[0] == "flag" else ()))]
        return wf(n.ch[0], ext) and _nodup(names)
    if k == "typed":
        tk, en, ct = a
        return wf(n.ch[0], ext) and (not en or min_size(n.ch[0]) > 0) and (tk[0] != "term" or bool(tk[1]))
    if k == "ifpresent":
        return wf(n.ch[0], ext) and min_size(n.ch[0]) > 0
    if k in ("lenswitch", "enumswitch"):
        return all(wf(c, ext) for c in n.ch)
    return True


def dom_predictable(n: Node) -> bool:
    """the generator's domain values are exactly in Spec.domb: every LengthSwitch branch has an evident exact size
    and EnumSwitch keys fit the tag primitive (otherwise domb is stricter than what is generated)"""
    for x in n.walk():
        if x.k == "lenswitch" and any(exact_size(c) is None for c in x.ch):
            return False
    return wf(n, ext=True)


def may_hang(n: Node) -> bool:
    """the real decoder can loop forever on some input (greedy loop over an entry that may consume nothing)"""
    for x in n.walk():
        if x.k == "coll" and (x.a[0][0] == "greedy" or x.a[0] == ("fixed", 0)):
            return True
    return False


# ---------------------------------------------------------------- values: Python <-> model

class Shape(Exception):
    pass


def f_bits(x: float, w: int) -> int:
    return int.from_bytes(struct.pack(">f" if w == 4 else ">d", x), "big")


def bits_f(b: int, w: int) -> float:
    return struct.unpack(">f" if w == 4 else ">d", b.to_bytes(w, "big"))[0]


def is_nan_bits(b: int, w: int) -> bool:
    if w == 4:
        return (b & 0x7f800000) == 0x7f800000 and (b & 0x007fffff) != 0
    return (b & 0x7ff0000000000000) == 0x7ff0000000000000 and (b & 0x000fffffffffffff) != 0


def _bytes_like(v):
    return isinstance(v, (bytes, bytearray, memoryview))


def ctx_choice(n: Node, ctxd) -> int:
    """index of the option the REAL ContextSwitch / ContextAdapter selects for the enclosing dict"""
    se, _ = mods()
    if ctxd is None:
        raise Shape("no enclosing template")
    obj = build(n)
    try:
        chosen = obj._choose_option(se.ParseContext(ctxd))
    except Exception:
        raise Shape("no option")
    pool = [build(c) for c in n.ch] if n.k == "ctxswitch" else n.x["opt_objs"]
    for i, o in enumerate(pool):
        if o is chosen:
            return i
    raise Shape("option not found")


def to_sx(n: Node, pod: bool, v, ctxd=None) -> str:
    """spec-directed translation of a Python value to the model's value term.  Raises Shape when the
    value does not have the representation the model uses for this spec and mode."""
    _, dt = mods()
    k, a = n.k, n.a
    if k == "prim":
        if a[0] == "f":
            if not isinstance(v, float):
                raise Shape("float expected")
            if v != v:
                return "( f nan )"
            if a[1] == 4:
                try:
                    return f"( f {hx(f_bits(v, 4))} )"
                except (OverflowError, struct.error):
                    raise Shape("not an f32")
            return f"( f {hx(f_bits(v, 8))} )"
        if not isinstance(v, int):
            raise Shape("int expected")
        return f"( i {hx(int(v))} )"
    if k in ("bytearray", "bytesfixed", "bytesgreedy", "bytesterm"):
        if not _bytes_like(v):
            raise Shape("bytes expected")
        return f"( b {hb(v)} )"
    if k in ("str", "strfixed", "cstr"):
        if not isinstance(v, str):
            raise Shape("str expected")
        return f"( s {hb(v.encode('utf8'))} )"
    if k == "uuid":
        if isinstance(v, dt.UUID):
            return f"( uuid {hb(v.bytes)} )"
        if isinstance(v, str):
            try:
                u = dt.UUID(v)
            except ValueError:
                raise Shape("not a uuid")
            if str(u) != v:
                raise Shape("non-canonical uuid text")
            return f"( uuidstr {hb(u.bytes)} )"
        raise Shape("uuid expected")
    if k == "null":
        if v is not None:
            raise Shape("None expected")
        return "( none )"
    if k == "coord":
        se, dt = mods()
        cls = dt.Quaternion if n.x.get("quat") else getattr(se, a[0]).COORD_CLS
        if pod:
            if not isinstance(v, tuple):
                raise Shape("tuple expected")
            comps = tuple(v)
        elif not isinstance(v, cls):
            raise Shape(cls.__name__ + " expected")
        else:
            comps = v.data(len(n.ch)) if n.x.get("quat") else tuple(v)
        if len(comps) != len(n.ch):
            raise Shape("component count")
        return "( l " + " ".join(to_sx(c, pod, x) for c, x in zip(n.ch, comps)) + " )"
    if k == "dataclass":
        import dataclasses
        dc = _make_dataclass(n, [build(c) for c in n.ch])
        if pod:
            if not isinstance(v, dict):
                raise Shape("dict expected")
            d = v
        else:
            if not isinstance(v, dc):
                raise Shape(dc.__name__ + " expected")
            d = {f.name: getattr(v, f.name) for f in dataclasses.fields(v)}
        keys = tkeys(n)
        if set(d) != set(keys):
            raise Shape("keys")
        return "( d " + " ".join(f"( {hx(nm)} {to_sx(c, pod, d[kk], d)} )" for nm, kk, c in zip(a[0], keys, n.ch)) + " )"
    if k == "tuple":
        if not isinstance(v, (list, tuple)) or len(v) != len(n.ch):
            raise Shape("sequence expected")
        return "( l " + " ".join(to_sx(c, pod, x) for c, x in zip(n.ch, v)) + " )" if v else "( l )"
    if k == "template":
        if not isinstance(v, dict):
            raise Shape("dict expected")
        names = tkeys(n)
        if set(v) - set(names):
            raise Shape("extra keys")
        parts = [f"( {hx(nm)} {to_sx(c, pod, v[kk], v)} )" for nm, kk, c in zip(a[0], names, n.ch) if kk in v]
        return "( d " + " ".join(parts) + " )" if parts else "( d )"
    if k == "coll":
        if not isinstance(v, (list, tuple)):
            raise Shape("sequence expected")
        return "( l " + " ".join(to_sx(n.ch[0], pod, x) for x in v) + " )" if v else "( l )"
    if k in ("opt", "ifpresent", "optflagged"):
        if v is None:
            return "( none )"
        return to_sx(n.ch[0], pod, v, ctxd)
    if k == "ctxswitch":
        # the value has the representation of the branch that the context selects
        return to_sx(n.ch[ctx_choice(n, ctxd)], pod, v, ctxd)
    if k == "ctxadapter":
        if isinstance(v, str):
            return _enum_sx(v, v[:1])
        if isinstance(v, int):
            return f"( i {hx(int(v))} )"
        if isinstance(v, (tuple, list)):
            return "( l " + " ".join(_enum_sx(x, "F") for x in v) + " )" if v else "( l )"
        return to_sx(n.ch[0], pod, v)
    if k == "flagswitch":
        if not isinstance(v, dict):
            raise Shape("dict expected")
        cls = flag_cls(a[0])
        parts, used = [], 0
        for (nm, z), c in zip(a[3], n.ch):
            m = cls["F%d" % nm]
            if m in v:
                parts.append(f"( {hx(nm)} {to_sx(c, pod, v[m], ctxd)} )")
                used += 1
            elif m.name in v:
                parts.append(f"( {hx(nm)} {to_sx(c, pod, v[m.name], ctxd)} )")
                used += 1
        if used != len(v):
            raise Shape("keys outside the choices")
        return "( d " + " ".join(parts) + " )" if parts else "( d )"
    if k == "typed":
        v = getattr(v, "__wrapped__", v)          # lazy TypedBytes: force the proxy
        if v is None and a[1]:
            return "( none )"
        return to_sx(n.ch[0], pod, v, ctxd)
    if k == "adapter":
        ad = a[0]
        if ad[0] == "opaque":
            return f"( i {hx(opaque_int(n, v))} )"
        if ad[0] == "bitfield":
            return _bitfield_sx(n, pod, v)
        if ad[0] == "bool":
            if not isinstance(v, int):
                raise Shape("bool expected")
            return f"( i {hx(int(v))} )"
        return _sadapter_sx(ad, v, n.x.get("names"))
    if k == "lenswitch":
        if isinstance(v, dt.TaggedUnion):
            v = (v.tag, v.value)
        if not isinstance(v, (tuple, list)) or len(v) != 2:
            raise Shape("tagged pair expected")
        tag = v[0]
        c = None
        for kk, cc in zip(a[0], n.ch):
            if kk == tag:
                c = cc
                break
        if c is None:
            for kk, cc in zip(a[0], n.ch):
                if kk is None:
                    c = cc
                    break
        if c is None:
            raise Shape("no choice")
        t = "( none )" if tag is None else f"( i {hx(int(tag))} )"
        return f"( l {t} {to_sx(c, pod, v[1])} )"
    if k == "enumswitch":
        if isinstance(v, dt.TaggedUnion):
            v = (v.tag, v.value)
        if not isinstance(v, (tuple, list)) or len(v) != 2:
            raise Shape("tagged pair expected")
        tag = v[0]
        tbl, keys = a[0], a[4]
        z = dict(("E%d" % nm, zz) for nm, zz in reversed(tbl)).get(tag) if isinstance(tag, str) else int(tag)
        c = None
        for kk, cc in zip(keys, n.ch):
            if kk == z:
                c = cc
                break
        if c is None:
            raise Shape("no choice")
        return f"( l {_enum_sx(tag)} {to_sx(c, pod, v[1])} )"
    raise ValueError(k)


def _enum_sx(v, prefix="E", names=None):
    if isinstance(v, str):
        if names is not None:
            if v not in names:
                raise Shape("member name expected")
            return f"( name {hx(names[v])} )"
        if not v.startswith(prefix) or not v[1:].isdigit():
            raise Shape("member name expected")
        return f"( name {hx(int(v[1:]))} )"
    if isinstance(v, int):
        return f"( i {hx(int(v))} )"
    raise Shape("enum value expected")


def _sadapter_sx(ad, v, names=None):
    """value of a Bool / IntEnum / IntFlag adapter (names: real member name -> id, for registry classes)"""
    if ad[0] == "bool":
        if not isinstance(v, int):
            raise Shape("bool expected")
        return f"( i {hx(int(v))} )"
    if ad[0] == "enum":
        return _enum_sx(v, "E", names)
    if isinstance(v, int):
        return f"( i {hx(int(v))} )"
    if isinstance(v, (tuple, list)):
        return "( l " + " ".join(_enum_sx(x, "F", names) for x in v) + " )" if v else "( l )"
    raise Shape("flag value expected")


def bf_keys(n: Node):
    if "bkeys" in n.x:
        return list(n.x["bkeys"])
    return ["b%d" % e[0] for e in n.a[0][2]]


def _bitfield_sx(n: Node, pod, v):
    import dataclasses
    if dataclasses.is_dataclass(v) and not isinstance(v, type):
        v = {f.name: getattr(v, f.name) for f in dataclasses.fields(v)}
    if not isinstance(v, dict):
        raise Shape("dict expected")
    keys = bf_keys(n)
    if set(v) != set(keys):
        raise Shape("bitfield keys")
    parts = []
    fnames = n.x.get("fnames") or {}
    for (nm, bits, fa), kk in zip(n.a[0][2], keys):
        x = v[kk]
        if fa is None:
            if not isinstance(x, int):
                raise Shape("int expected")
            parts.append(f"( {hx(nm)} ( i {hx(int(x))} ) )")
        else:
            parts.append(f"( {hx(nm)} {_sadapter_sx(fa, x, fnames.get(nm))} )")
    return "( d " + " ".join(parts) + " )"


def _prim_of(n: Node):
    c = n.ch[0]
    while c.k != "prim":
        c = c.ch[0]
    return c


def opaque_int(n: Node, v) -> int:
    """the wire int an opaque (quantized / fixed-point) adapter encodes the Python value to - computed with the
    REAL adapter (the model only sees this int)"""
    se, _ = mods()
    if not isinstance(v, (int, float)):
        raise Shape("number expected")
    w = se.BufferWriter(">")
    try:
        w.write(build(n), v)
    except Exception as ex:
        raise Shape("opaque adapter cannot encode: " + type(ex).__name__)
    p = _prim_of(n)
    return int.from_bytes(bytes(w.buffer), "big", signed=(p.a[0] == "s"))


def opaque_value(n: Node, z: int):
    """decode a wire int with the REAL adapter"""
    se, _ = mods()
    p = _prim_of(n)
    data = z.to_bytes(p.a[1], "big", signed=(p.a[0] == "s"))
    return se.BufferReader(">", data).read(build(n))


def _from_sadapter(ad, x, names=None):
    h = x[0]
    if h == "i":
        z = int(x[1], 16)
        if ad[0] == "bool":
            return bool(z) if z in (0, 1) else z
        return z
    if h == "name":
        i = int(x[1], 16)
        if names is not None:
            for nm, j in names.items():
                if j == i:
                    return nm
            raise Shape("unknown member id")
        return ("F" if ad[0] == "flag" else "E") + str(i)
    if h == "l":
        return tuple(_from_sadapter(ad, i, names) for i in x[1:])
    raise Shape(h)


def _unparse_sx(x):
    if isinstance(x, list):
        return "( " + " ".join(_unparse_sx(i) for i in x) + " )" if x else "( )"
    return x


def from_sx(n: Node, x, pod=False, ctxd=None):
    """model value term (parsed) -> Python value for the real classes (inverse of to_sx on its image)"""
    se, dt = mods()
    k, a = n.k, n.a
    h = x[0]
    if h == "none":
        return None
    if k in ("opt", "typed", "ifpresent", "optflagged"):
        return from_sx(n.ch[0], x, pod, ctxd)
    if k == "ctxswitch":
        return from_sx(n.ch[ctx_choice(n, ctxd)], x, pod, ctxd)
    if k == "ctxadapter":
        if h == "name":
            return "E" + str(int(x[1], 16))
        if h == "l":
            return tuple(("F" + str(int(i[1], 16))) if i[0] == "name" else int(i[1], 16) for i in x[1:])
        if h == "i" and n.ch[0].k == "prim" and n.ch[0].a[0] != "f":
            return int(x[1], 16)
        return from_sx(n.ch[0], x, pod)
    if k == "flagswitch":
        cls = flag_cls(a[0])
        by = {nm: c for (nm, z), c in zip(a[3], n.ch)}
        out = {}
        for kv in x[1:]:
            nm = int(kv[0], 16)
            out[("F%d" % nm) if pod else cls["F%d" % nm]] = from_sx(by[nm], kv[1], pod)
        return out
    if k == "adapter":
        ad = a[0]
        if ad[0] == "opaque":
            return opaque_value(n, int(x[1], 16))
        if ad[0] == "bitfield":
            keys = bf_keys(n)
            by = {e[0]: (e, kk) for e, kk in zip(ad[2], keys)}
            fnames = n.x.get("fnames") or {}
            out = {}
            for kv in x[1:]:
                (nm, bits, fa), kk = by[int(kv[0], 16)]
                out[kk] = int(kv[1][1], 16) if fa is None else _from_sadapter(fa, kv[1], fnames.get(nm))
            if not pod and "data_cls" in n.x:
                return n.x["data_cls"](**out)
            return out
        return _from_sadapter(ad, x, n.x.get("names"))
    if h == "i":
        return int(x[1], 16)
    if h == "f":
        w = a[1] if k == "prim" else 8
        return bits_f(int(x[1], 16), w)
    if h == "b":
        return b"" if x[1] == "-" else bytes.fromhex(x[1])
    if h == "s":
        return (b"" if x[1] == "-" else bytes.fromhex(x[1])).decode("utf8")
    if h == "uuid":
        return dt.UUID(bytes=bytes.fromhex(x[1]))
    if h == "uuidstr":
        return str(dt.UUID(bytes=bytes.fromhex(x[1])))
    if h == "l":
        items = x[1:]
        if k == "tuple":
            out = [from_sx(c, i, pod) for c, i in zip(n.ch, items)]
            return out + [0] * (len(items) - len(n.ch))
        if k == "coord":
            comps = [from_sx(c, i, pod) for c, i in zip(n.ch, items)]
            if pod:
                return tuple(comps)
            return dt.Quaternion(*comps) if n.x.get("quat") else getattr(se, a[0]).COORD_CLS(*comps)
        if k == "coll":
            return [from_sx(n.ch[0], i, pod) for i in items]
        if k == "lenswitch":
            tag = None if items[0][0] == "none" else int(items[0][1], 16)
            c = None
            for kk, cc in zip(a[0], n.ch):
                if kk == tag:
                    c = cc
            if c is None:
                for kk, cc in zip(a[0], n.ch):
                    if kk is None:
                        c = cc
            return (tag, from_sx(c or n.ch[0], items[1], pod))
        if k == "enumswitch":
            tag = _from_sadapter(("enum", a[1], a[0]), items[0])
            z = dict(("E%d" % nm, zz) for nm, zz in reversed(a[0])).get(tag) if isinstance(tag, str) else tag
            c = None
            for kk, cc in zip(a[4], n.ch):
                if kk == z:
                    c = cc
            return (tag, from_sx(c or n.ch[0], items[1], pod))
        raise Shape("list for " + k)
    if h == "d":
        keys = tkeys(n)
        by = {nm: (c, kk) for nm, c, kk in zip(a[0], n.ch, keys)}
        out = {}
        for kv in x[1:]:
            c, kk = by[int(kv[0], 16)]
            out[kk] = from_sx(c, kv[1], pod, out)
        if k == "dataclass" and not pod:
            return _make_dataclass(n, [build(c) for c in n.ch])(**out)
        return out
    raise Shape(h)


def same_value(impl_sx: str, model_sx: str) -> bool:
    """token-wise equality; a NaN decoded by the implementation matches any NaN bit pattern of the model"""
    if impl_sx == model_sx:
        return True
    a, b = impl_sx.split(), model_sx.split()
    if len(a) != len(b):
        return False
    for x, y in zip(a, b):
        if x == y:
            continue
        if x == "nan":
            try:
                bits = int(y, 16)
            except ValueError:
                return False
            if is_nan_bits(bits, 4) or is_nan_bits(bits, 8):
                continue
        return False
    return True
