"""(G) translator for C09: walk the live registry se.SUBFIELD_SERIALIZERS of the repo under test,
classify every registered (message, block, variable) key, and emit coq/gen/C09_gen.v with the
member tables / adapter structure of every integer serializer together with the variable's wire
type taken from the repo's message template dictionary.

Everything here is read from live objects each run; nothing is cached."""
from __future__ import annotations

import enum
import os
import re
from typing import Any, Dict, List, Optional, Tuple

WTY = {"MVT_U8": "U8", "MVT_U16": "U16", "MVT_U32": "U32", "MVT_U64": "U64",
       "MVT_S8": "S8", "MVT_S16": "S16", "MVT_S32": "S32", "MVT_S64": "S64"}
WBITS = {"U8": 8, "U16": 16, "U32": 32, "U64": 64, "S8": 8, "S16": 16, "S32": 32, "S64": 64}


def wire_range(ty: str) -> Tuple[int, int]:
    b = WBITS[ty]
    if ty.startswith("S"):
        return -(1 << (b - 1)), (1 << (b - 1)) - 1
    return 0, (1 << b) - 1


class Cls:
    """tables of one enum / flag class"""
    def __init__(self, pycls):
        self.pycls = pycls
        self.iter = [(m.name, int(m)) for m in pycls]
        self.names = [(n, int(m)) for n, m in pycls.__members__.items()]
        self.coq_name = None

    def text(self):
        return "%s;%s" % (table_text(self.iter), table_text(self.names))


def table_text(t):
    return ",".join("%s=%d" % (n, v) for n, v in t) or "-"


class Entry:
    def __init__(self, key):
        self.key = key
        self.kind = "opaque"          # enum | flag | adapter | context | bitfield | opaque
        self.ty: Optional[str] = None
        self.vtype = None             # template MsgType name or None when the variable is absent
        self.inert = False
        self.why_opaque = ""
        self.cls: Optional[Cls] = None          # enum / flag
        self.adapter = None                     # ("enum", strict, Cls) | ("flag", Cls) | ("bool",) | ("identity",) | ("nibbles",)
        self.ctx_field: Optional[str] = None
        self.opts: List[Tuple[int, Any]] = []
        self.dflt = None
        self.shift = True
        self.fields: List[Tuple[str, int, Any]] = []
        self.serializer = None
        self.index: Optional[int] = None        # index in the generated Coq registry
        self.quant: Optional[dict] = None       # parameters of a QuantizedFloat adapter (own obligations)

    @property
    def modelled(self):
        return self.kind != "opaque" and not self.inert and self.ty is not None

    def text(self):
        """canonical text of the entry; the driver prints the same from the extracted registry"""
        return "%s %s %s %s " % (self.key + (self.ty,)) + self.spec()

    def spec(self):
        """serializer in the driver's inline grammar (see coq/ocaml/c09_driver.ml)"""
        if self.kind == "enum":
            return "E;" + self.cls.text()
        if self.kind == "flag":
            return "F;" + self.cls.text()
        if self.kind == "adapter":
            return "A/" + adapter_text(self.adapter)
        if self.kind == "context":
            return "C" + "".join("/%d~%s" % (k, adapter_text(a)) for k, a in self.opts) + \
                ("/d~" + adapter_text(self.dflt) if self.dflt else "")
        if self.kind == "bitfield":
            return "B/%d" % int(self.shift) + "".join("/%s~%d~%s" % (n, b, adapter_text(a)) for n, b, a in self.fields)
        return "O"


def adapter_text(a):
    if a[0] == "enum":
        return "enum;%d;%s" % (int(a[1]), a[2].text())
    if a[0] == "flag":
        return "flag;%s" % a[1].text()
    return a[0]


class _Probe:
    """records which sibling field a ContextAdapter's selector function reads"""
    def __init__(self):
        object.__setattr__(self, "seen", [])

    def __getattr__(self, item):
        self.seen.append(item)
        return 0

    def __getitem__(self, item):
        self.seen.append(item)
        return 0


class Registry:
    def __init__(self):
        self.entries: List[Entry] = []
        self.classes: Dict[int, Cls] = {}

    def cls_of(self, pycls) -> Cls:
        c = self.classes.get(id(pycls))
        if c is None:
            c = Cls(pycls)
            base = "cls_" + re.sub(r"[^A-Za-z0-9_]", "_", pycls.__name__)
            used = {x.coq_name for x in self.classes.values()}
            name, i = base, 1
            while name in used:
                i += 1
                name = "%s_%d" % (base, i)
            c.coq_name = name
            self.classes[id(pycls)] = c
        return c

    def classify_adapter(self, a):
        import hippolyzer.lib.base.serialization as se
        import hippolyzer.lib.base.templates as templates
        t = type(a)
        if t is se.IntEnum:
            return ("enum", bool(a._strict), self.cls_of(a.enum_cls))
        if t is se.IntFlag:
            return ("flag", self.cls_of(a.flag_cls))
        if t is se.BoolAdapter:
            return ("bool",)
        if t is se.IdentityAdapter:
            return ("identity",)
        if t is getattr(templates, "AttachmentStateAdapter", None):
            if (a.OFFSET, a.MASK) == (4, 0xF0):
                return ("nibbles",)
        return None


def load(repo_note=None) -> Registry:
    import hippolyzer.lib.base.templates as templates  # noqa: registers everything
    import hippolyzer.lib.base.serialization as se
    from hippolyzer.lib.base.message.template_dict import TemplateDictionary
    td = TemplateDictionary()
    reg = Registry()
    for key in sorted(se.SUBFIELD_SERIALIZERS):
        ser = se.SUBFIELD_SERIALIZERS[key]
        e = Entry(key)
        e.serializer = ser
        msg, block, var = key
        try:
            vt = td.message_templates[msg].get_block(block).get_variable(var)
            e.vtype = vt.type.name
        except Exception:
            e.vtype = None
            e.inert = True
        e.ty = WTY.get(e.vtype) if e.vtype else None
        _classify(reg, e, ser, se)
        if e.kind != "opaque" and not e.inert and e.ty is None:
            e.why_opaque = "integer adapter registered on a %s variable" % e.vtype
            e.kind = "opaque"
        reg.entries.append(e)
    idx = 0
    for e in reg.entries:
        if e.modelled:
            e.index = idx
            idx += 1
    return reg


def _classify(reg: Registry, e: Entry, ser, se):
    if isinstance(ser, se.IntEnumSubfieldSerializer) and type(ser) is se.IntEnumSubfieldSerializer:
        a = ser._adapter
        if type(a) is se.IntEnum and not a._strict:
            e.kind, e.cls = "enum", reg.cls_of(a.enum_cls)
        else:
            e.why_opaque = "enum serializer with a non-standard adapter"
        return
    if isinstance(ser, se.IntFlagSubfieldSerializer) and type(ser) is se.IntFlagSubfieldSerializer:
        a = ser._adapter
        if type(a) is se.IntFlag:
            e.kind, e.cls = "flag", reg.cls_of(a.flag_cls)
        else:
            e.why_opaque = "flag serializer with a non-standard adapter"
        return
    if isinstance(ser, type) and issubclass(ser, se.AdapterSubfieldSerializer) \
            and ser.serialize.__func__ is se.AdapterSubfieldSerializer.serialize.__func__ \
            and ser.deserialize.__func__ is se.AdapterSubfieldSerializer.deserialize.__func__:
        a = ser.ADAPTER
        simple = reg.classify_adapter(a)
        if simple is not None:
            e.kind, e.adapter = "adapter", simple
            return
        if isinstance(a, se.ContextAdapter) and type(a).encode is se.ContextAdapter.encode \
                and type(a).decode is se.ContextAdapter.decode:
            probe = _Probe()
            try:
                a._fun(probe)
            except Exception:
                probe.seen.clear()
            opts, dflt, ok = [], None, len(probe.seen) == 1
            for k, sub in a._options.items():
                sa = reg.classify_adapter(sub)
                if sa is None:
                    ok = False
                    break
                if k is se.MISSING:
                    dflt = sa
                elif isinstance(k, int):
                    opts.append((int(k), sa))
                else:
                    ok = False
                    break
            if ok:
                e.kind, e.ctx_field, e.opts, e.dflt = "context", probe.seen[0], opts, dflt
                return
            e.why_opaque = "context adapter with options outside the model"
            return
        if type(a) is se.BitfieldDataclass:
            fields, ok = [], True
            for name, ent in a._bitfield_spec._schema.items():
                sa = reg.classify_adapter(ent.adapter)
                if sa is None:
                    ok = False
                    break
                fields.append((name, int(ent.bits), sa))
            if ok:
                e.kind, e.shift, e.fields = "bitfield", bool(a._shift), fields
                return
        if type(a) is se.QuantizedFloat and type(a._child_spec) is se.SerializablePrimitive \
                and not isinstance(a.lower, bool):
            e.quant = {"rmin": int(a._child_spec.min_val), "rmax": int(a._child_spec.max_val), "prim_min": int(a.prim_min),
                       "lower": float(a.lower), "upper": float(a.upper), "step": float(a.step_mag),
                       "zero_median": bool(a.zero_median), "adapter": a}
            e.why_opaque = "quantised float: not in the integer registry; own generated obligations (gen/C09_quant_gen.v)"
            return
        e.why_opaque = "adapter %s is not an integer adapter of the model" % type(a).__name__
        return
    e.why_opaque = "byte-payload / custom serializer %s" % (getattr(ser, "__name__", type(ser).__name__))


# ------------------------------------------------------------------ Coq emission

def coq_str(s: str) -> str:
    """a name as an explicit list of characters (the model's [name] type)"""
    assert all(32 <= ord(c) < 127 and c != '"' for c in s), s
    return "[" + ";".join('"%s"%%char' % c for c in s) + "]"


def coq_z(v: int) -> str:
    return "%d" % v if v >= 0 else "(%d)" % v


def coq_table(t) -> str:
    return "[" + "; ".join("(%s, %s)" % (coq_str(n), coq_z(v)) for n, v in t) + "]"


def coq_adapter(a) -> str:
    if a[0] == "enum":
        return "(AEnum %s %s)" % ("true" if a[1] else "false", a[2].coq_name)
    if a[0] == "flag":
        return "(AFlag %s)" % a[1].coq_name
    return {"bool": "ABool", "identity": "AIdentity", "nibbles": "ANibbles"}[a[0]]


def coq_serializer(e: Entry) -> str:
    if e.kind == "enum":
        return "SEnumField %s" % e.cls.coq_name
    if e.kind == "flag":
        return "SFlagField %s" % e.cls.coq_name
    if e.kind == "adapter":
        return "SAdapter %s" % coq_adapter(e.adapter)
    if e.kind == "context":
        return "SContext [%s] %s" % ("; ".join("(%s, %s)" % (coq_z(k), coq_adapter(a)) for k, a in e.opts),
                                     "(Some %s)" % coq_adapter(e.dflt) if e.dflt else "None")
    if e.kind == "bitfield":
        return "SBitfield %s [%s]" % ("true" if e.shift else "false", "; ".join(
            "{| bf_name := %s; bf_bits := %d; bf_adapter := %s |}" % (coq_str(n), b, coq_adapter(a))
            for n, b, a in e.fields))
    return "SOpaque"


def emit(reg: Registry, path: str) -> List[dict]:
    out = ["(* GENERATED by harness/translate/c09_registry.py from the live se.SUBFIELD_SERIALIZERS registry",
           "   and the message template dictionary of the repo under test.  Rewritten on every run. *)",
           "From Coq Require Import ZArith List String Ascii Bool.",
           "From HV Require Import Subfield.IntAdapters Subfield.IntAdaptersProofs.",
           "Import ListNotations.", "Open Scope Z_scope.", ""]
    for c in reg.classes.values():
        out.append("Definition %s : cls := {| c_iter := %s;\n  c_names := %s |}." % (
            c.coq_name, coq_table(c.iter), coq_table(c.names)))
    out.append("")
    obls = []
    modelled = [e for e in reg.entries if e.modelled]
    for e in modelled:
        out.append("Definition entry_%d : entry := {| e_msg := %s; e_block := %s; e_var := %s;\n"
                   "  e_ser := %s; e_ty := %s |}." % (e.index, coq_str(e.key[0]), coq_str(e.key[1]),
                                                       coq_str(e.key[2]), coq_serializer(e), e.ty))
        name = "C09_registered_ok_%d" % e.index
        out.append("Example %s : registered_ok (e_ser entry_%d) (e_ty entry_%d) = true.\n"
                   "Proof. vm_compute. reflexivity. Qed." % (name, e.index, e.index))
        obls.append({"name": "%s[%s.%s.%s:%s:%s]" % ((name,) + e.key + (e.kind, e.ty)),
                     "detail": "well-formed %s serializer on a %s variable" % (e.kind, e.ty)})
    out.append("")
    out.append("Definition registry : list entry := [%s]." % "; ".join("entry_%d" % e.index for e in modelled))
    out.append("")
    out.append("Theorem C09_registry_ok : registry_ok registry = true.\nProof. vm_compute. reflexivity. Qed.")
    out.append("")
    out.append("(* every modelled registered key is lossless for every integer of its wire type,\n"
               "   in object and plain-data form, for every value of the context field *)")
    out.append("Theorem C09_registry_lossless : forall e, In e registry ->\n"
               "  forall ctx pod z, in_wire_range (e_ty e) z -> lossless_at (e_ser e) ctx pod z.\n"
               "Proof. exact (registry_lossless registry C09_registry_ok). Qed.")
    out.append("Print Assumptions C09_registry_lossless.")
    out.append("")
    out.append("(* member values that the variable cannot hold (informational, not needed above) *)")
    out.append("Definition registry_misfits : list entry :=\n"
               "  filter (fun e => negb (registered_fits (e_ser e) (e_ty e))) registry.")
    out.append("")
    out.append("(* keys NOT covered by the theorem above (decided by the implementation-level oracle only):")
    for e in reg.entries:
        if e.inert:
            out.append("   inert  %s.%s.%s : variable absent from the message template" % e.key)
        elif not e.modelled:
            out.append("   opaque %s.%s.%s (%s): %s" % (e.key + (e.vtype, e.why_opaque)))
    out.append("*)")
    obls.append({"name": "C09_registry_lossless", "detail": "%d modelled keys" % len(modelled)})
    txt = "\n".join(out) + "\n"
    os.makedirs(os.path.dirname(path), exist_ok=True)
    old = open(path).read() if os.path.exists(path) else None
    if old != txt:
        with open(path, "w") as f:
            f.write(txt)
    return obls


# ------------------------------------------------------------------ quantised-float keys (PrimFloat model of C10)

MASK63 = (1 << 63) - 1


def fhex(x: float) -> str:
    import math
    if x != x:
        return "PrimFloat.nan"
    if x == math.inf:
        return "PrimFloat.infinity"
    if x == -math.inf:
        return "PrimFloat.neg_infinity"
    h = float(x).hex()
    return "(-%s)%%float" % h[1:] if h.startswith("-") else "(%s)%%float" % h


def chk_key(x: float) -> int:
    """mirror of Quant/QuantModel.chk_key"""
    import math
    if x != x or x in (math.inf, -math.inf) or x == 0.0:
        mant, e = 0, 0
    else:
        m, ex = math.frexp(abs(x))
        mant, e = int(m * (1 << 53)), ex + 2101
    neg = x == x and x != -math.inf and math.copysign(1.0, x) < 0
    return (mant + e * 1000003 + (777767777 if neg else 0)) & MASK63


def checksum(values) -> int:
    acc = 0
    for i, x in enumerate(values):
        acc = (acc + (2 * i + 1) * chk_key(x)) & MASK63
    return acc


def quant_entries(reg: Registry):
    return [e for e in reg.entries if e.quant is not None and not e.inert and e.ty is not None]


def emit_quant(reg: Registry, path: str) -> List[dict]:
    """gen/C09_quant_gen.v: per quantised-float key the adapter's parameters, the agreement of the Coq
    model's decode with the implementation on EVERY raw (checksum over bit patterns + samples), of its
    encode on the decoded values of sampled raws and out-of-range floats, and the exhaustive round trip"""
    qs = quant_entries(reg)
    out = ["(* GENERATED by harness/translate/c09_registry.py (quantised-float keys) from the live registry; rewritten every run. *)",
           "From Coq Require Import PrimFloat Uint63 ZArith List Ascii Bool.",
           "From HV Require Import Subfield.IntAdapters Subfield.QuantField Quant.QuantModel Quant.QuantProofs.",
           "Import ListNotations.", ""]
    obls = []
    insts = {}
    for e in qs:
        q = e.quant
        a = q["adapter"]
        if id(a) not in insts:
            i = len(insts)
            insts[id(a)] = i
            nm = "quant_%d" % i
            out.append("Definition %s : quant :=\n  QF {| qf_kind_of := KBase; qf_rmin := (%d)%%Z; qf_rmax := (%d)%%Z; qf_lower := %s; "
                       "qf_upper := %s; qf_step := %s; qf_zero_median := %s |}." % (
                           nm, q["prim_min"], q["prim_min"] + (q["rmax"] - q["rmin"]), fhex(q["lower"]), fhex(q["upper"]),
                           fhex(q["step"]), "true" if q["zero_median"] else "false"))
            raws = list(range(q["rmin"], q["rmax"] + 1))
            dec = [a.decode(r, None) for r in raws]
            n = len(raws)
            idx = sorted(set([0, 1, 2, n // 2 - 1, n // 2, n // 2 + 1, n - 3, n - 2, n - 1] + list(range(0, n, max(1, n // 64)))))
            idx = [j for j in idx if 0 <= j < n]
            out.append("Definition %s_samples : list (Z * float) :=\n  [%s]." % (
                nm, "; ".join("((%d)%%Z, %s)" % (raws[j], fhex(dec[j])) for j in idx)))
            out.append("Example C09_%s_decode_agrees : decode_agrees %s %s_samples %d%%uint63 = true.\n"
                       "Proof. vm_compute. reflexivity. Qed." % (nm, nm, nm, checksum(dec)))
            span = q["upper"] - q["lower"]
            floats = [dec[j] for j in idx] + [q["lower"] - span, q["upper"] + span, q["lower"], q["upper"], 0.0, -0.0]
            for j in idx:                      # values between two representable ones: the rounding itself
                if j + 1 < n:
                    floats += [(dec[j] + dec[j + 1]) / 2, dec[j] + (dec[j + 1] - dec[j]) * 0.25, dec[j] + (dec[j + 1] - dec[j]) * 0.75]
            cases = []
            for x in floats:
                try:
                    r = a.encode(x, None)
                    r = int(r) if q["rmin"] <= int(r) <= q["rmax"] else None
                except Exception:
                    r = None
                cases.append("(%s, %s)" % (fhex(x), "None" if r is None else "(Some (%d)%%Z)" % r))
            out.append("Definition %s_encode_cases : list (float * option Z) :=\n  [%s]." % (nm, "; ".join(cases)))
            out.append("Example C09_%s_encode_agrees : encode_agrees %s %s_encode_cases = true.\n"
                       "Proof. vm_compute. reflexivity. Qed." % (nm, nm, nm))
            obls.append({"name": "C09_%s_decode_agrees" % nm, "detail": "model decode == implementation decode on all %d raws" % n})
            obls.append({"name": "C09_%s_encode_agrees" % nm, "detail": "%d encode cases" % len(cases)})
    out.append("")
    for k, e in enumerate(qs):
        nm = "quant_%d" % insts[id(e.quant["adapter"])]
        out.append("Definition qentry_%d : qentry := {| qe_msg := %s; qe_block := %s; qe_var := %s; qe_q := %s; qe_ty := %s |}." % (
            k, coq_str(e.key[0]), coq_str(e.key[1]), coq_str(e.key[2]), nm, e.ty))
        name = "C09_quant_ok_%d" % k
        out.append("Example %s : quant_field_ok (qe_q qentry_%d) (qe_ty qentry_%d) = true.\nProof. vm_compute. reflexivity. Qed." % (name, k, k))
        obls.append({"name": "%s[%s.%s.%s:%s]" % ((name,) + e.key + (e.ty,)),
                     "detail": "every raw of the wire type survives decode-then-encode (exhaustive, PrimFloat model)"})
    out.append("")
    out.append("Definition quant_registry : list qentry := [%s]." % "; ".join("qentry_%d" % k for k in range(len(qs))))
    out.append("Theorem C09_quant_registry_ok : quant_registry_ok quant_registry = true.\nProof. vm_compute. reflexivity. Qed.")
    out.append("Theorem C09_quant_registry_lossless : forall e, In e quant_registry ->\n"
               "  forall z, in_wire_range (qe_ty e) z -> f2q (qe_q e) (q2f (qe_q e) z) = Some z.\n"
               "Proof. exact (quant_registry_lossless quant_registry C09_quant_registry_ok). Qed.")
    out.append("Print Assumptions C09_quant_registry_lossless.")
    obls.append({"name": "C09_quant_registry_lossless", "detail": "%d quantised-float keys" % len(qs)})
    txt = "\n".join(out) + "\n"
    os.makedirs(os.path.dirname(path), exist_ok=True)
    old = open(path).read() if os.path.exists(path) else None
    if old != txt:
        with open(path, "w") as f:
            f.write(txt)
    return obls


# ------------------------------------------------------------------ date keys (DateModel / DatePrim)

def date_entries(reg: Registry):
    out = []
    for e in reg.entries:
        a = getattr(e.serializer, "ADAPTER", None)
        if not e.inert and e.ty is not None and type(a).__name__ == "DateAdapter" and isinstance(getattr(a, "_multiplier", None), int):
            out.append(e)
    return out


def process_is_utc() -> bool:
    import time
    return time.timezone == 0 and time.daylight == 0 and time.localtime(1636266600).tm_gmtoff == 0 \
        and time.localtime(1625140800).tm_gmtoff == 0


def date_case_values(ty: str, mult: int, rng, n_random: int):
    lo, hi = wire_range(ty)
    secs = [-62135596800, -62135596799, -2208988800, -86401, -86400, -1, 0, 1, 59, 86399, 86400, 951782400, 1098554253,
            1636263000, 1636266600, 2147483647, 2147483648, 4294967295, 32503680000, 253402300798, 253402300799,
            253402300800, -62135596801]
    zs = [lo, lo + 1, hi - 1, hi, hi // 2] + [s * mult for s in secs]
    if mult > 1:
        zs += [1098554253192844, 1098554253192843, 999999, 1, 500000, 1500000, 2 ** 53 - 1, 2 ** 53, 2 ** 62, 2 ** 63, 2 ** 64 - 1,
               1636266600000001, 253402300799999999]
        for _ in range(n_random):
            zs.append(rng.randrange(0, 2 ** 51))
    for _ in range(n_random):
        zs.append(rng.randrange(max(lo, -2 ** 40), min(hi, 2 ** 40)) if mult == 1 else rng.randrange(0, 253402300799) * mult)
    out, seen = [], set()
    for z in zs:
        if not lo <= z <= hi or z in seen:
            continue
        if abs(z) >= 2 ** 53 and abs(z) < 2 ** 63 and int(float(z)) != z:
            continue          # outside the faithful domain of the binary64 instance (exact int/int division)
        seen.add(z)
        out.append(z)
    return out


def emit_dates(reg: Registry, path: str, rng, n_random: int, notes: list) -> List[dict]:
    """gen/C09_date_gen.v: agreement of the DateModel/DatePrim model with the implementation (decode text and
    re-encoded integer) on cases computed live; only meaningful when this process runs under UTC"""
    ds = date_entries(reg)
    out = ["(* GENERATED by harness/translate/c09_registry.py (date keys) from the live registry under TZ=UTC; rewritten every run. *)",
           "From Coq Require Import PrimFloat ZArith List Ascii Bool.",
           "From HV Require Import Subfield.IntAdapters Subfield.DateModel Subfield.DatePrim.",
           "Import ListNotations.", "Open Scope Z_scope.", ""]
    obls = []
    if not process_is_utc():
        notes.append("date model agreement skipped: the check process does not run under UTC")
        ds = []
    for k, e in enumerate(ds):
        ser = e.serializer
        mult = int(ser.ADAPTER._multiplier)
        cases = []
        for z in date_case_values(e.ty, mult, rng, n_random):
            try:
                txt = ser.deserialize({}, z, pod=True)
            except Exception:
                txt = None
            back = None
            if txt is not None:
                try:
                    back = int(ser.serialize({}, txt))
                except Exception:
                    back = None
            cases.append("(%s, %s, %s)" % (coq_z(z), "None" if txt is None else "Some %s" % coq_str(txt),
                                            "None" if back is None else "Some %s" % coq_z(back)))
        out.append("(* %s.%s.%s : %s, multiplier %d *)" % (e.key + (e.ty, mult)))
        out.append("Definition date_cases_%d : list (Z * option (list ascii) * option Z) :=\n  [%s]." % (k, ";\n   ".join(cases)))
        name = "C09_date_agrees_%d" % k
        out.append("Example %s : date_agrees %d date_cases_%d = true.\nProof. vm_compute. reflexivity. Qed." % (name, mult, k))
        obls.append({"name": "%s[%s.%s.%s]" % ((name,) + e.key),
                     "detail": "binary64 model == implementation on %d integers (decoded text and re-encoded integer, TZ=UTC)" % len(cases)})
    txt = "\n".join(out) + "\n"
    os.makedirs(os.path.dirname(path), exist_ok=True)
    old = open(path).read() if os.path.exists(path) else None
    if old != txt:
        with open(path, "w") as f:
            f.write(txt)
    return obls
