"""C10 (G) translator: live quantiser instances of /repo  ->  coq/gen/C10_gen.v

Every run this module
  * walks the objects reachable from the registered subfield serializers and the
    module globals of hippolyzer.lib.base.{templates,llanim,mesh,...} and collects
    every distinct quantised-float / fixed-point codec instance (class, wire
    type, lower, upper, step_mag, zero_median ...) - parameters are read from the
    live objects, never from a table in this file;
  * evaluates the REAL implementation on every raw of each instance (decode) and on
    a structured set of floats (encode) and writes the results as hex-float
    literals / a checksum next to the model instance, so that Coq re-computes the
    same values with the PrimFloat model and compares (model <-> code tie);
  * emits per-instance theorems (round trip, monotone, end points, zero) proved
    by vm_compute over ALL raws of the 8/16-bit wire type.

An unknown quantiser class (a subclass overriding the arithmetic that has no
model) makes the translator fail closed.
"""
from __future__ import annotations

import dataclasses
import importlib
import math
import os
import pkgutil
import struct
from typing import Any, Callable, Dict, List, Optional, Tuple

MASK63 = (1 << 63) - 1

# Known exceptions of the real code, stated in the model (QuantModel.v:
# rt_excluded / ends_excluded / zero_excluded) and in the generated theorems.
# This table is static on purpose: nothing observed at run time can add to it.
KNOWN_EXCEPTIONS = {
    "terot": "PackedTERotation: raw rmin decodes to -2pi, fmod folds it to -0.0 -> re-encodes to 0; "
             "the declared upper end 2pi has no raw (65536 steps, half-open) and both ends encode to 0",
    "numpy-centred": "QuantizedNumPyArray over a range centred on zero: no raw decodes to 0.0 "
                     "(documented: 'no zero midpoint rounding')",
    "fixed-clamp": "FixedPoint.serialize clamps to max_val = 1 << int_bits, one step above the largest "
                   "representable value: serialize(max_val) raises struct.error",
}


def fhex(x: float) -> str:
    """Coq term for a binary64 value (bit exact)."""
    if x != x:
        return "PrimFloat.nan"
    if x == math.inf:
        return "PrimFloat.infinity"
    if x == -math.inf:
        return "PrimFloat.neg_infinity"
    h = float(x).hex()
    if h.startswith("-"):
        return "(-%s)%%float" % h[1:]
    return "(%s)%%float" % h


def zlit(z: int) -> str:
    return "(%d)%%Z" % z


def optz(o) -> str:
    return "None" if o is None else "(Some %s)" % zlit(o)


def chk_key(x: float) -> int:
    """mirror of QuantModel.chk_key (frshiftexp / normfr_mantissa / sign of 1/x)"""
    if x != x or x in (math.inf, -math.inf):
        mant, e = 0, 0
    elif x == 0.0:
        mant, e = 0, 0
    else:
        m, ex = math.frexp(abs(x))
        mant = int(m * (1 << 53))
        e = ex + 2101
    neg = math.copysign(1.0, x) < 0 and x == x and x not in (-math.inf,)
    if x == -math.inf:
        neg = False     # 1 / -inf = -0.0, and (-0.0 <? 0) is false
    return (mant + e * 1000003 + (777767777 if neg else 0)) & MASK63


def checksum(values: List[float]) -> int:
    acc = 0
    for i, x in enumerate(values):
        acc = (acc + (2 * i + 1) * chk_key(x)) & MASK63
    return acc


# --------------------------------------------------------------------------
# instances

@dataclasses.dataclass
class Instance:
    kind: str                      # base | terot | numpy | fixed | weight | qtime
    cls: str                       # python class name
    rmin: int
    rmax: int
    params: Dict[str, Any]         # floats / bools, kind specific
    paths: List[str]
    obj: Any = None
    name: str = ""

    def key(self):
        def c(v):
            return float(v).hex() if isinstance(v, float) else v
        return (self.kind, self.cls, self.rmin, self.rmax,
                tuple(sorted((k, c(v)) for k, v in self.params.items() if k != "elems")))

    def label(self) -> str:
        p = self.params
        if self.kind in ("base", "terot", "numpy"):
            return "%s[%d..%d] %s..%s zm=%s" % (self.cls, self.rmin, self.rmax, repr(p["lower"]), repr(p["upper"]), p["zero_median"])
        if self.kind == "fixed":
            return "FixedPoint[0..%d] frac=%d signed=%s" % (self.rmax, p["frac_bits"], p["signed"])
        if self.kind == "weight":
            return "VertexWeights[0..%d]" % self.rmax
        return "QuantizedTime[%d..%d]" % (self.rmin, self.rmax)

    def ident(self) -> str:
        """stable identifier used in violations / known-finding matching"""
        p = self.params
        if self.kind in ("base", "terot", "numpy"):
            return "%s/%d..%d/%s..%s" % (self.cls, self.rmin, self.rmax, float(p["lower"]).hex(), float(p["upper"]).hex())
        if self.kind == "fixed":
            return "FixedPoint/0..%d/frac%d/%s" % (self.rmax, p["frac_bits"], "signed" if p["signed"] else "unsigned")
        if self.kind == "weight":
            return "VertexWeights/0..%d" % self.rmax
        return "QuantizedTime/%d..%d" % (self.rmin, self.rmax)


def _import_all():
    import hippolyzer.lib.base as base
    mods = []
    for name in ("templates", "llanim", "mesh"):
        mods.append(importlib.import_module("hippolyzer.lib.base." + name))
    for m in pkgutil.iter_modules(base.__path__):
        if m.ispkg:
            continue
        try:
            mods.append(importlib.import_module("hippolyzer.lib.base." + m.name))
        except Exception:
            pass
    return mods


def _describe(o) -> Optional[Instance]:
    """Instance for a live codec object, None if `o` is not a quantiser.  Raises on quantisers without a model."""
    import hippolyzer.lib.base.serialization as se
    import numpy as np
    if isinstance(o, se.QuantizedFloatBase):
        cls = type(o)
        prim = o._child_spec
        rmin, rmax = prim.min_val, prim.max_val
        if o.prim_min != rmin:
            raise ValueError("prim_min differs from the wire type's minimum: %r" % (o,))
        own = {n for k in cls.__mro__ if k not in (se.QuantizedFloatBase, se.QuantizedFloat, se.Adapter, se.SerializableBase, object)
               for n in vars(k) if n in ("_quantized_to_float", "_float_to_quantized", "encode", "decode", "serialize", "deserialize")}
        if isinstance(o, se.QuantizedFloat):
            if cls is se.QuantizedFloat:
                kind = "base"
            elif cls.__name__ == "PackedTERotation" and own == {"_float_to_quantized"}:
                kind = "terot"
            else:
                raise ValueError("QuantizedFloat subclass without a model: %s overriding %s" % (cls.__name__, sorted(own)))
            return Instance(kind, cls.__name__, rmin, rmax,
                            {"lower": float(o.lower), "upper": float(o.upper), "step": float(o.step_mag),
                             "zero_median": bool(o.zero_median)}, [], o)
        if cls.__name__ == "QuantizedTime" and own == {"encode", "decode"} and hasattr(o, "_get_upper_limit"):
            return Instance("qtime", cls.__name__, rmin, rmax,
                            {"step": float(o.step_mag), "zero_median": bool(o.zero_median)}, [], o)
        raise ValueError("QuantizedFloatBase subclass without a model: %s" % cls.__name__)
    if isinstance(o, se.FixedPoint):
        if type(o) is not se.FixedPoint:
            raise ValueError("FixedPoint subclass without a model: %s" % type(o).__name__)
        prim = o._ser_spec
        if prim.min_val != 0:
            raise ValueError("FixedPoint over a signed wire type")
        return Instance("fixed", "FixedPoint", 0, prim.max_val,
                        {"frac_bits": int(o._frac_bits), "signed": bool(o._signed),
                         "min_val": float(o._min_val), "max_val": float(o._max_val),
                         "scale": float(1 << o._frac_bits)}, [], o)
    if isinstance(o, se.QuantizedNumPyArray):
        if type(o) is not se.QuantizedNumPyArray:
            raise ValueError("QuantizedNumPyArray subclass without a model: %s" % type(o).__name__)
        dt = np.dtype(o.dtype)
        if dt.kind != "u":
            raise ValueError("QuantizedNumPyArray over a signed dtype")
        return Instance("numpy", "QuantizedNumPyArray", 0, (1 << (8 * dt.itemsize)) - 1,
                        {"lower": float(o.lower), "upper": float(o.upper), "step": float(o.step_mag),
                         "zero_median": False, "elems": int(o._child_spec.elems)}, [], o)
    return None


def collect_compounds():
    """tuple-valued codecs built from quantisers / fixed-point elements (Vector3U16, Vector4U8, FixedPointVector3U16, ...) and the
    PackedQuat adapters around them, found by the same reflective walk: [(path, spec object, element prim format, n elems)]"""
    import hippolyzer.lib.base.serialization as se
    found = {}

    def describe(o):
        inner = o._child_spec if isinstance(o, se.PackedQuat) else o
        if isinstance(inner, type) or not isinstance(inner, se.EncodedTupleCoord):
            return None
        specs = getattr(inner, "_elem_specs", None)
        if not specs or not all(isinstance(x, (se.QuantizedFloatBase, se.FixedPoint)) for x in specs):
            return None
        prim = inner.ELEM_SPEC
        fmt = {(0, 255): "B", (-128, 127): "b", (0, 65535): "H", (-32768, 32767): "h"}[(prim.min_val, prim.max_val)]
        key = (type(o).__name__, type(inner).__name__, fmt, len(specs),
               tuple((type(x).__name__, getattr(x, "lower", None), getattr(x, "upper", None), getattr(x, "_frac_bits", None),
                      getattr(x, "_signed", None)) for x in specs))
        return key, (o, fmt, len(specs))

    for path, o in _walk_live():
        try:
            d = describe(o)
        except Exception:
            d = None
        if d is not None and d[0] not in found:
            found[d[0]] = (path,) + d[1]
    return [found[k] for k in sorted(found, key=repr)]


def _walk_live():
    """yields (path, object) for every object reachable from the registered serializers + module globals (same traversal
    as collect_instances, without stopping at quantisers)"""
    import hippolyzer.lib.base.serialization as se
    mods = _import_all()
    seen = set()
    stack: List[Tuple[str, Any]] = []
    for key, ser in sorted(se.SUBFIELD_SERIALIZERS.items(), key=lambda kv: tuple(map(str, kv[0]))):
        stack.append(("subfield:" + ".".join(map(str, key)), ser))
    for m in mods:
        for n in sorted(vars(m)):
            if n.startswith("__"):
                continue
            stack.append((m.__name__.split(".")[-1] + "." + n, getattr(m, n)))
    stack.reverse()
    budget = 2_000_000

    def ours(t) -> bool:
        return getattr(t, "__module__", "").startswith("hippolyzer")

    while stack:
        path, o = stack.pop()
        budget -= 1
        if budget < 0:
            raise RuntimeError("object walk exceeded its budget")
        if o is None or isinstance(o, (int, float, str, bytes, bool, complex)):
            continue
        if id(o) in seen:
            continue
        seen.add(id(o))
        yield path, o
        children: List[Tuple[str, Any]] = []
        if isinstance(o, dict):
            for k2, v in o.items():
                children.append((path + "[%r]" % (k2,), v))
        elif isinstance(o, (list, tuple, set, frozenset)):
            for i, v in enumerate(o):
                children.append((path + "[%d]" % i, v))
        elif isinstance(o, dataclasses.Field):
            children.append((path + ".metadata", dict(o.metadata)))
        elif isinstance(o, type):
            if ours(o):
                for n, v in list(vars(o).items()):
                    if n.startswith("__") and n not in ("__dataclass_fields__",):
                        continue
                    children.append((path + "." + n, v))
        elif ours(type(o)):
            if isinstance(o, se.ForwardSerializable):
                try:
                    o._ensure_evaled()
                except Exception:
                    pass
            d = getattr(o, "__dict__", None)
            if isinstance(d, dict):
                for n, v in list(d.items()):
                    children.append((path + "." + n, v))
            for k3 in type(o).__mro__:
                for n in getattr(k3, "__slots__", ()) or ():
                    if isinstance(n, str) and hasattr(o, n):
                        try:
                            children.append((path + "." + n, getattr(o, n)))
                        except Exception:
                            pass
        for c in reversed(children):
            stack.append(c)


def collect_instances() -> List[Instance]:
    """reflective walk from the registered serializers + module globals"""
    import hippolyzer.lib.base.serialization as se
    mods = _import_all()
    import hippolyzer.lib.base.mesh as mesh
    found: Dict[Any, Instance] = {}
    seen = set()
    stack: List[Tuple[str, Any]] = []
    for key, ser in sorted(se.SUBFIELD_SERIALIZERS.items(), key=lambda kv: tuple(map(str, kv[0]))):
        stack.append(("subfield:" + ".".join(map(str, key)), ser))
    for m in mods:
        for n in sorted(vars(m)):
            if n.startswith("__"):
                continue
            stack.append((m.__name__.split(".")[-1] + "." + n, getattr(m, n)))
    stack.reverse()
    budget = 2_000_000

    def ours(t) -> bool:
        return getattr(t, "__module__", "").startswith("hippolyzer")

    while stack:
        path, o = stack.pop()
        budget -= 1
        if budget < 0:
            raise RuntimeError("object walk exceeded its budget")
        if o is None or isinstance(o, (int, float, str, bytes, bool, complex)):
            continue
        oid = id(o)
        if oid in seen:
            continue
        seen.add(oid)
        if o is mesh.VertexWeights:
            inst = Instance("weight", "VertexWeights", se.U16.min_val, se.U16.max_val, {"scale": float(0xFFFF)}, [], o)
            k = inst.key()
            found.setdefault(k, inst).paths.append(path)
            continue
        inst = _describe(o)
        if inst is not None:
            k = inst.key()
            found.setdefault(k, inst).paths.append(path)
            continue
        children: List[Tuple[str, Any]] = []
        if isinstance(o, dict):
            for k2, v in o.items():
                children.append((path + "[%r]" % (k2,), v))
        elif isinstance(o, (list, tuple, set, frozenset)):
            for i, v in enumerate(o):
                children.append((path + "[%d]" % i, v))
        elif isinstance(o, dataclasses.Field):
            children.append((path + ".metadata", dict(o.metadata)))
        elif isinstance(o, type):
            if ours(o):
                for n, v in list(vars(o).items()):
                    if n.startswith("__") and n not in ("__dataclass_fields__",):
                        continue
                    children.append((path + "." + n, v))
        elif ours(type(o)):
            if isinstance(o, se.ForwardSerializable):
                try:
                    o._ensure_evaled()
                except Exception:
                    pass
            d = getattr(o, "__dict__", None)
            if isinstance(d, dict):
                for n, v in list(d.items()):
                    children.append((path + "." + n, v))
            for k3 in type(o).__mro__:
                for n in getattr(k3, "__slots__", ()) or ():
                    if isinstance(n, str) and hasattr(o, n):
                        try:
                            children.append((path + "." + n, getattr(o, n)))
                        except Exception:
                            pass
        elif isinstance(o, (staticmethod, classmethod)):
            pass
        for c in reversed(children):
            stack.append(c)
    insts = sorted(found.values(), key=lambda i: (("base", "terot", "numpy", "fixed", "weight", "qtime").index(i.kind), i.rmax - i.rmin,
                                                   i.label()))
    for n, i in enumerate(insts):
        i.name = "inst_%02d" % n
    return insts


# --------------------------------------------------------------------------
# running the real implementation

class _Root:
    def __init__(self, duration):
        self.duration = duration
        self.major_version = 1
        self.minor_version = 0


class Impl:
    """decode / encode of one instance on the real code; exceptions become 'EXC:<type>'"""

    def __init__(self, inst: Instance, duration: Optional[float] = None):
        import hippolyzer.lib.base.serialization as se
        self.se = se
        self.inst = inst
        self.o = inst.obj
        self.duration = duration
        n = inst.rmax - inst.rmin + 1
        self.fmt = {(256, False): "<B", (256, True): "<b", (65536, False): "<H", (65536, True): "<h"}[(n, inst.rmin < 0)]
        self.prim = {"<B": se.U8, "<b": se.S8, "<H": se.U16, "<h": se.S16}[self.fmt]
        if inst.kind == "qtime":
            self._root = se.ParseContext(_Root(duration))
            self.ctx = se.ParseContext([], parent=self._root)
        else:
            self.ctx = None

    # -- adapter level (Adapter.decode / Adapter.encode; FixedPoint / VertexWeights only have the wire level)
    def decode(self, r: int):
        k = self.inst.kind
        try:
            if k in ("base", "terot", "qtime"):
                return self.o.decode(r, self.ctx)
            if k == "numpy":
                import numpy as np
                return float(self.o.decode(np.array([r], dtype=self.o.dtype), None)[0])
            return self.decode_wire(r)
        except Exception as e:  # noqa
            return "EXC:" + type(e).__name__

    def decode_all(self) -> List[float]:
        k = self.inst.kind
        raws = range(self.inst.rmin, self.inst.rmax + 1)
        if k == "numpy":
            import numpy as np
            arr = self.o.decode(np.arange(self.inst.rmin, self.inst.rmax + 1, dtype=np.int64).astype(self.o.dtype), None)
            return [float(x) for x in arr]
        if k in ("base", "terot", "qtime"):
            dec, ctx = self.o.decode, self.ctx
            return [dec(r, ctx) for r in raws]
        return [self.decode_wire(r) for r in raws]

    def encode(self, v: float):
        """the raw integer that reaches the wire, or 'EXC:<type>'"""
        k = self.inst.kind
        try:
            if k in ("base", "terot", "qtime"):
                z = self.o.encode(v, self.ctx)
                self.prim._pick_struct("<").pack(z)     # what writer.write(child_spec, z) does next
                return int(z)
            if k == "numpy":
                import numpy as np
                import warnings
                with warnings.catch_warnings():
                    warnings.simplefilter("ignore")
                    return int(self.o.encode(np.array([v], dtype=np.float64), None)[0])
            return self.encode_wire(v)
        except Exception as e:  # noqa
            return "EXC:" + type(e).__name__

    def encode_all(self, vals: List[float]) -> List[Any]:
        k = self.inst.kind
        if k == "numpy":
            import numpy as np
            out = self.o.encode(np.array(vals, dtype=np.float64), None)
            return [int(x) for x in out]
        if k in ("base", "terot", "qtime"):
            enc, ctx, lo, hi = self.o.encode, self.ctx, self.inst.rmin, self.inst.rmax
            res = []
            for v in vals:
                try:
                    z = enc(v, ctx)
                    res.append(int(z) if lo <= z <= hi else "EXC:error")
                except Exception as e:  # noqa
                    res.append("EXC:" + type(e).__name__)
            return res
        return [self.encode(v) for v in vals]

    # -- wire level: bytes <-> value through BufferReader / BufferWriter
    def decode_wire(self, r: int):
        se = self.se
        k = self.inst.kind
        try:
            raw = struct.pack(self.fmt, r)
            if k == "weight":
                res = se.BufferReader("<", b"\x00" + raw + b"\xff").read(self.o)
                return float(res[0].weight)
            if k == "numpy":
                elems = self.inst.params["elems"]
                res = se.BufferReader("<", raw * elems).read(self.o)
                return float(res[0][0])
            return se.BufferReader("<", raw).read(self.o, ctx=self.ctx)
        except Exception as e:  # noqa
            return "EXC:" + type(e).__name__

    def encode_wire(self, v: float):
        se = self.se
        k = self.inst.kind
        try:
            w = se.BufferWriter("<")
            if k == "weight":
                w.write(self.o, [(0, v)])
                b = w.copy_buffer()
                return struct.unpack(self.fmt, b[1:3])[0]
            if k == "numpy":
                import warnings
                elems = self.inst.params["elems"]
                with warnings.catch_warnings():
                    warnings.simplefilter("ignore")
                    w.write(self.o, [[v] * elems])
                return struct.unpack(self.fmt, w.copy_buffer()[:struct.calcsize(self.fmt)])[0]
            w.write(self.o, v, ctx=self.ctx)
            return struct.unpack(self.fmt, w.copy_buffer())[0]
        except Exception as e:  # noqa
            return "EXC:" + type(e).__name__


def declared_range(inst: Instance, duration: Optional[float] = None) -> Tuple[float, float]:
    p = inst.params
    if inst.kind in ("base", "terot", "numpy"):
        return p["lower"], p["upper"]
    if inst.kind == "fixed":
        return p["min_val"], p["max_val"] - 1.0 / p["scale"]
    if inst.kind == "weight":
        return 0.0, 1.0
    return 0.0, duration


def encode_inputs(inst: Instance, decoded: List[float], rng, n_random: int, duration: Optional[float] = None) -> List[float]:
    """structured floats for the encode comparison: ends, zeros, outside, specials, decoded values and their
    neighbours, exact ties between adjacent decoded values, random in-range values"""
    lo, hi = declared_range(inst, duration)
    span = hi - lo
    vals = [lo, hi, 0.0, -0.0, lo - 1.0, hi + 1.0, lo - span, hi + span, 1e300, -1e300, math.inf, -math.inf,
            (lo + hi) / 2.0, math.nextafter(lo, -math.inf), math.nextafter(hi, math.inf),
            math.nextafter(lo, math.inf), math.nextafter(hi, -math.inf), 5e-324, -5e-324]
    if inst.kind != "numpy":
        vals.append(math.nan)          # numpy: nan -> integer cast is platform dependent, not modelled
    if inst.kind == "fixed":
        vals += [inst.params["max_val"], math.nextafter(inst.params["max_val"], 0.0), inst.params["max_val"] - 0.5 / inst.params["scale"]]
    if inst.kind == "weight":
        vals += [1.0 + 0.4 / 65535, 1.0 + 0.6 / 65535, -0.4 / 65535, -0.6 / 65535, 2.0]
    if inst.kind == "terot":
        tp = inst.params["upper"]
        vals += [7.0, -7.0, 10.0, -10.0, 2 * tp, -2 * tp, 100.0, -100.0, 1e10, -1e22, 3 * tp / 2, -3 * tp / 2,
                 tp - 1e-5, -tp + 1e-5, tp - 1e-4, tp + 1e-5, math.nextafter(tp, 0.0), math.nextafter(-tp, 0.0)]
    n = len(decoded)
    idx = sorted(set([0, 1, 2, n // 2 - 2, n // 2 - 1, n // 2, n // 2 + 1, n - 3, n - 2, n - 1]
                     + [rng.randrange(n) for _ in range(48)]))
    for i in idx:
        if not (0 <= i < n):
            continue
        v = decoded[i]
        vals += [v, math.nextafter(v, math.inf), math.nextafter(v, -math.inf)]
        if i + 1 < n:
            w = decoded[i + 1]
            mid = (v + w) / 2.0
            vals += [mid, math.nextafter(mid, math.inf), math.nextafter(mid, -math.inf)]
    for _ in range(n_random):
        t = rng.random()
        if t < 0.8:
            vals.append(rng.uniform(lo, hi))
        elif t < 0.9:
            vals.append(rng.uniform(lo - span, hi + span))
        else:
            vals.append(rng.uniform(-1.0, 1.0) * 10.0 ** rng.randrange(-12, 6))
    out, seen = [], set()
    for v in vals:
        v = float(v)
        key = struct.pack("<d", v) if v == v else b"nan"
        if key not in seen:
            seen.add(key)
            out.append(v)
    return out


def zero_raw(inst: Instance) -> int:
    """the raw that a range centred on zero uses for +0.0 (middle of the wire range, upper twin)"""
    return inst.rmin + (inst.rmax - inst.rmin + 1) // 2


def is_centred(inst: Instance) -> bool:
    if inst.kind in ("base", "terot", "numpy"):
        return -inst.params["lower"] == inst.params["upper"]
    return False


# --------------------------------------------------------------------------
# Coq emission

def coq_instance(inst: Instance) -> str:
    p = inst.params
    if inst.kind in ("base", "terot", "numpy"):
        kind = {"base": "KBase", "terot": "KTERot", "numpy": "KNumpy"}[inst.kind]
        if inst.kind == "terot" and p.get("guarded"):
            kind = "KTERotGuarded"
        return ("QF {| qf_kind_of := %s; qf_rmin := %s; qf_rmax := %s; qf_lower := %s; qf_upper := %s; "
                "qf_step := %s; qf_zero_median := %s |}" % (kind, zlit(inst.rmin), zlit(inst.rmax), fhex(p["lower"]), fhex(p["upper"]),
                                                            fhex(p["step"]), "true" if p["zero_median"] else "false"))
    if inst.kind == "fixed":
        return ("QX {| qx_rmax := %s; qx_scale := %s; qx_signed := %s; qx_minv := %s; qx_maxv := %s; qx_saturate := %s |}"
                % (zlit(inst.rmax), fhex(p["scale"]), "true" if p["signed"] else "false", fhex(p["min_val"]), fhex(p["max_val"]),
                   "true" if p.get("saturate") else "false"))
    if inst.kind == "weight":
        return "QW {| qw_rmax := %s; qw_scale := %s |}" % (zlit(inst.rmax), fhex(p["scale"]))
    raise ValueError(inst.kind)


HEADER = """(* GENERATED by harness/translate/c10_quant.py from the live objects of the repo under test.
   Rewritten on every run; do not edit.  Parameters, decode samples, checksums and encode
   cases below were computed by the real Python implementation in this run. *)
From Coq Require Import PrimFloat Uint63 ZArith List Bool.
From HV Require Import Quant.QuantModel Quant.QuantProofs.
Import ListNotations.

"""


def emit(path: str, insts: List[Instance], data: Dict[str, dict], qtime: Optional[dict]) -> List[dict]:
    """data[name] = {samples: [(r, float)], chk: int, enc: [(float, int|None)], ...}; returns obligation descriptors"""
    out = [HEADER]
    obls = []

    def ob(name, detail):
        obls.append({"name": name, "detail": detail})

    VM = "Proof. vm_cast_no_check (eq_refl true). Qed.\n"
    plain = [i for i in insts if i.kind != "qtime"]
    names = [i.name for i in plain]
    for pos, inst in enumerate(plain):
        n = inst.name
        d = data[n]
        nr = inst.rmax - inst.rmin + 1
        lab = inst.label()
        out.append("(* ---------------------------------------------------------------------\n   %s: %s\n   reached at: %s%s *)\n"
                   % (n, lab, "; ".join(inst.paths[:4]), " (+%d more)" % (len(inst.paths) - 4) if len(inst.paths) > 4 else ""))
        out.append("Definition %s : quant :=\n  %s.\n" % (n, coq_instance(inst)))
        # --- model <-> implementation
        out.append("Definition %s_samples : list (Z * float) :=\n  [%s].\n" % (
            n, ";\n   ".join("(%s, %s)" % (zlit(r), fhex(v)) for r, v in d["samples"])))
        out.append("Lemma %s_decode_impl : decode_agrees %s %s_samples %d%%uint63 = true.\n%s" % (n, n, n, d["chk"], VM))
        ob("%s_decode_impl" % n, "%s: model decode = implementation decode on %d sampled raws (bit exact) and checksum over all %d raws"
           % (lab, len(d["samples"]), nr))
        out.append("Definition %s_enc_cases : list (float * option Z) :=\n  [%s].\n" % (
            n, ";\n   ".join("(%s, %s)" % (fhex(v), optz(z)) for v, z in d["enc"])))
        out.append("Lemma %s_encode_impl : encode_agrees %s %s_enc_cases = true.\n%s" % (n, n, n, VM))
        ob("%s_encode_impl" % n, "%s: model encode = implementation encode on %d floats" % (lab, len(d["enc"])))
        # --- round trip
        out.append("Lemma %s_rt : rt_fact %s.\n%s" % (n, n, VM))
        if inst.kind == "terot" and not inst.params.get("guarded"):
            out.append("(* KNOWN EXCEPTION (%s) *)\n" % KNOWN_EXCEPTIONS["terot"])
            out.append("Theorem %s_roundtrip : forall r, raw_ok %s r -> r <> %s -> f2q %s (q2f %s r) = Some r.\n"
                       "Proof. exact (roundtrip_lift_above_min %s %s_rt). Qed.\n" % (n, n, zlit(inst.rmin), n, n, n, n))
        else:
            out.append("Theorem %s_roundtrip : forall r, raw_ok %s r -> f2q %s (q2f %s r) = Some r.\n"
                       "Proof. exact (roundtrip_lift_plain %s %s_rt eq_refl). Qed.\n" % (n, n, n, n, n, n))
        ob("%s_roundtrip" % n, "%s: f2q (q2f r) = r for all %d raws%s"
           % (lab, nr, " except rmin" if inst.kind == "terot" and not inst.params.get("guarded") else ""))
        # --- monotone
        out.append("Lemma %s_mono : mono_fact %s.\n%s" % (n, n, VM))
        ob("%s_mono" % n, "%s: q2f r <= q2f (r+1), strict except the +-0 twin, for all %d adjacent pairs" % (lab, nr - 1))
        # --- end points
        out.append("Lemma %s_ends : ends_fact %s.\nProof. vm_compute. repeat split; reflexivity. Qed.\n" % (n, n))
        ob("%s_ends" % n, "%s: rmin <-> declared lower, rmax <-> declared upper%s" % (lab, " (lower decode only)" if inst.kind == "terot" else ""))
        # --- zero
        if is_centred(inst) and inst.kind != "numpy":
            out.append("Lemma %s_zero : zero_fact %s.\nProof. exists %s. vm_compute. repeat split; (reflexivity || discriminate). Qed.\n"
                       % (n, n, zlit(d["zero_raw"])))
            ob("%s_zero" % n, "%s: raw %d <-> +0.0%s" % (lab, d["zero_raw"], ", raw %d <-> -0.0" % (d["zero_raw"] - 1) if inst.params["zero_median"] else ""))
        else:
            out.append("Lemma %s_zero : zero_fact %s.\nProof. exact I. Qed.\n" % (n, n))
        if inst.kind == "fixed" and inst.params["signed"]:
            out.append("Lemma %s_zero_fixed : zero_fixed_fact %s.\nProof. exists %s. vm_compute. repeat split; (reflexivity || discriminate). Qed.\n"
                       % (n, n, zlit(d["zero_raw"])))
            ob("%s_zero_fixed" % n, "%s: raw %d <-> 0.0" % (lab, d["zero_raw"]))
        else:
            out.append("Lemma %s_zero_fixed : zero_fixed_fact %s.\nProof. exact I. Qed.\n" % (n, n))
        out.append("\n")

    out.append("Definition C10_instances : list quant :=\n  [%s].\n" % "; ".join(names))
    for pos, n in enumerate(names):
        out.append("Lemma %s_in : In %s C10_instances.\nProof. unfold C10_instances. cbn [In]. %sleft. reflexivity. Qed.\n"
                   % (n, n, "do %d right. " % pos if pos else ""))

    def forall_term(lst, suffix):
        t = "Forall_nil _"
        for n in reversed(lst):
            t = "Forall_cons %s %s_%s (%s)" % (n, n, suffix, t)
        return t

    for suffix, fact in (("rt", "rt_fact"), ("mono", "mono_fact"), ("ends", "ends_fact"), ("zero", "zero_fact"),
                         ("zero_fixed", "zero_fixed_fact")):
        out.append("Lemma C10_all_%s : Forall %s C10_instances.\nProof. exact (%s). Qed.\n" % (suffix, fact, forall_term(names, suffix)))

    # --- known exceptions: refutations of the full-strength statement, with computed witnesses
    terot = [i for i in plain if i.kind == "terot" and not i.params.get("guarded")]
    terot_any = [i for i in plain if i.kind == "terot"]
    npc = [i for i in plain if i.kind == "numpy" and is_centred(i)]
    fx = [i for i in plain if i.kind == "fixed" and not i.params.get("saturate")]
    out.append("\n(* KNOWN EXCEPTION (%s) *)\n" % KNOWN_EXCEPTIONS["terot"])
    for i in terot:
        n = i.name
        d = data[n]
        out.append("Lemma %s_roundtrip_refuted : f2q %s (q2f %s %s) = Some %s.\nProof. vm_compute. reflexivity. Qed.\n"
                   % (n, n, n, zlit(i.rmin), zlit(d["rt_min_result"])))
        out.append("Lemma %s_refuted : terot_refuted_fact C10_instances %s.\n"
                   "Proof.\n  split; [exact %s_in|]. split; [unfold raw_ok; vm_compute; split; discriminate|].\n"
                   "  split; [vm_compute; discriminate|]. split; [vm_compute; float_neq|].\n"
                   "  split; vm_compute; discriminate.\nQed.\n" % (n, n, n))
        ob("%s_refuted" % n, "%s: raw %d re-encodes to %d; upper end decodes to %r; lower/upper encode to %r/%r"
           % (i.label(), i.rmin, d["rt_min_result"], d["dec_max"], d["enc_lower"], d["enc_upper"]))
    for i in terot_any:
        n = i.name
        out.append("Lemma %s_upper_refuted : terot_upper_refuted_fact C10_instances %s.\n"
                   "Proof. split; [exact %s_in|]. split; [vm_compute; float_neq | vm_compute; discriminate]. Qed.\n" % (n, n, n))
    out.append("Definition C10_terot_instances : list quant := [%s].\n" % "; ".join(i.name for i in terot))
    out.append("Lemma C10_terot_refuted : Forall (terot_refuted_fact C10_instances) C10_terot_instances.\nProof. exact (%s). Qed.\n"
               % forall_term([i.name for i in terot], "refuted"))
    out.append("Definition C10_terot_any_instances : list quant := [%s].\n" % "; ".join(i.name for i in terot_any))
    out.append("Lemma C10_terot_upper_refuted : Forall (terot_upper_refuted_fact C10_instances) C10_terot_any_instances.\nProof. exact (%s). Qed.\n"
               % forall_term([i.name for i in terot_any], "upper_refuted"))
    ob("C10_terot_refuted", "%d PackedTERotation instance(s) with the lower-end defect" % len(terot))
    ob("C10_terot_upper_refuted", "%d PackedTERotation instance(s): declared upper end has no raw" % len(terot_any))
    out.append("\n(* KNOWN EXCEPTION (%s) *)\n" % KNOWN_EXCEPTIONS["numpy-centred"])
    for i in npc:
        n = i.name
        out.append("Lemma %s_nonzero : nonzero_check %s = true.\n%s" % (n, n, VM))
        out.append("Lemma %s_zero_refuted : numpy_zero_refuted_fact C10_instances %s.\n"
                   "Proof. split; [exact %s_in|]. split; [vm_compute; reflexivity|]. exact (nonzero_lift %s %s_nonzero). Qed.\n" % (n, n, n, n, n))
        ob("%s_zero_refuted" % n, "%s: no raw decodes to zero (all %d checked)" % (i.label(), i.rmax - i.rmin + 1))
    out.append("Definition C10_numpy_centred_instances : list quant := [%s].\n" % "; ".join(i.name for i in npc))
    out.append("Lemma C10_numpy_zero_refuted : Forall (numpy_zero_refuted_fact C10_instances) C10_numpy_centred_instances.\nProof. exact (%s). Qed.\n"
               % forall_term([i.name for i in npc], "zero_refuted"))
    out.append("\n(* OBSERVATION (%s) *)\n" % KNOWN_EXCEPTIONS["fixed-clamp"])
    for i in fx:
        n = i.name
        out.append("Lemma %s_clamp_refuted : fixed_clamp_refuted_fact C10_instances %s.\n"
                   "Proof. split; [exact %s_in|]. vm_compute. reflexivity. Qed.\n" % (n, n, n))
        ob("%s_clamp_refuted" % n, "%s: serialize(max_val = %r) raises" % (i.label(), i.params["max_val"]))
    out.append("Definition C10_fixed_clamp_instances : list quant := [%s].\n" % "; ".join(i.name for i in fx))
    out.append("Lemma C10_fixed_clamp_refuted : Forall (fixed_clamp_refuted_fact C10_instances) C10_fixed_clamp_instances.\nProof. exact (%s). Qed.\n"
               % forall_term([i.name for i in fx], "clamp_refuted"))

    # --- QuantizedTime
    if qtime is not None:
        out.append("\n(* llanim.QuantizedTime: U16 over [0, duration]; duration is an F32 from the animation header.\n"
                   "   Exhaustive over all 65536 raws for each of the %d declared durations below. *)\n" % len(qtime["durations"]))
        out.append("Definition C10_qtime_step : float := %s.\n" % fhex(qtime["step"]))
        out.append("Definition C10_durations : list float :=\n  [%s].\n" % ";\n   ".join(fhex(d) for d in qtime["durations"]))
        out.append("Lemma C10_qtime_all : qtime_check C10_qtime_step C10_durations = true.\n" + VM)
        ob("C10_qtime_all", "QuantizedTime: round trip, strict monotonicity, end points for all 65536 raws x %d durations" % len(qtime["durations"]))
        eds = qtime.get("end_durations", [])
        out.append("(* end-point clauses alone, on a larger declared list of %d durations *)\n" % len(eds))
        out.append("Definition C10_end_durations : list float :=\n  [%s].\n" % ";\n   ".join(fhex(d) for d in eds))
        out.append("Lemma C10_qtime_ends_all : qtime_ends_check C10_qtime_step C10_end_durations = true.\n" + VM)
        ob("C10_qtime_ends_all", "QuantizedTime: raw 0 <-> 0.0 and raw 65535 <-> duration for %d durations" % len(eds))
        out.append("Definition C10_qtime_decode_sums : list (float * int) :=\n  [%s].\n" % ";\n   ".join(
            "(%s, %d%%uint63)" % (fhex(d), c) for d, c in qtime["sums"]))
        out.append("Lemma C10_qtime_decode_impl : qtime_decode_agrees C10_qtime_step C10_qtime_decode_sums = true.\n" + VM)
        ob("C10_qtime_decode_impl", "QuantizedTime: checksum of all 65536 implementation decodes = model, for %d durations" % len(qtime["sums"]))
        out.append("Definition C10_qtime_enc_cases : list (float * list (float * option Z)) :=\n  [%s].\n" % ";\n   ".join(
            "(%s, [%s])" % (fhex(d), "; ".join("(%s, %s)" % (fhex(v), optz(z)) for v, z in cases)) for d, cases in qtime["enc"]))
        out.append("Lemma C10_qtime_encode_impl :\n  forallb (fun p => encode_agrees (qtime C10_qtime_step (fst p)) (snd p)) C10_qtime_enc_cases = true.\n" + VM)
        ob("C10_qtime_encode_impl", "QuantizedTime: model encode = implementation encode on %d floats over %d durations"
           % (sum(len(c) for _, c in qtime["enc"]), len(qtime["enc"])))
    else:
        out.append("Definition C10_qtime_step : float := PrimFloat.one.\nDefinition C10_durations : list float := [].\n"
                   "Lemma C10_qtime_all : qtime_check C10_qtime_step C10_durations = true.\nProof. reflexivity. Qed.\n"
                   "Definition C10_end_durations : list float := [].\n"
                   "Lemma C10_qtime_ends_all : qtime_ends_check C10_qtime_step C10_end_durations = true.\nProof. reflexivity. Qed.\n")
    with open(path, "w") as f:
        f.write("".join(out))
    return obls


def emit_more(path: str, more: Optional[dict]) -> List[dict]:
    """thorough tier: QuantizedTime over further durations, in a file of its own (see props/c10.py more_durations_for)"""
    obls = []
    VM = "Proof. vm_cast_no_check (eq_refl true). Qed.\n"
    durs = more["durations"] if more else []
    out = [HEADER.replace("From HV Require Import Quant.QuantModel Quant.QuantProofs.",
                          "From HV Require Import Quant.QuantModel Quant.QuantProofs.\nFrom HVgen Require Import C10_gen.")]
    out.append("(* llanim.QuantizedTime: %d further durations (thorough tier), exhaustive over all 65536 raws each *)\n" % len(durs))
    out.append("Definition C10_more_durations : list float :=\n  [%s].\n" % ";\n   ".join(fhex(d) for d in durs))
    out.append("Lemma C10_qtime_more_all : qtime_check C10_qtime_step C10_more_durations = true.\n" + (VM if durs else "Proof. reflexivity. Qed.\n"))
    out.append("Theorem C10_quanttime_roundtrip_partial_more : forall d, In d C10_more_durations ->\n"
               "  qtime_facts (qtime C10_qtime_step d) d.\n"
               "Proof. exact (qtime_lift C10_qtime_step C10_more_durations C10_qtime_more_all). Qed.\n")
    if durs:
        obls.append({"name": "C10_quanttime_roundtrip_partial_more",
                     "detail": "QuantizedTime: round trip, strict monotonicity, end points for all 65536 raws x %d further durations" % len(durs)})
        out.append("Definition C10_qtime_more_decode_sums : list (float * int) :=\n  [%s].\n" % ";\n   ".join(
            "(%s, %d%%uint63)" % (fhex(d), c) for d, c in more["sums"]))
        out.append("Lemma C10_qtime_more_decode_impl : qtime_decode_agrees C10_qtime_step C10_qtime_more_decode_sums = true.\n" + VM)
        obls.append({"name": "C10_qtime_more_decode_impl",
                     "detail": "QuantizedTime: checksum of all implementation decodes = model, for %d further durations" % len(durs)})
        out.append("Definition C10_qtime_more_enc_cases : list (float * list (float * option Z)) :=\n  [%s].\n" % ";\n   ".join(
            "(%s, [%s])" % (fhex(d), "; ".join("(%s, %s)" % (fhex(v), optz(z)) for v, z in cases)) for d, cases in more["enc"]))
        out.append("Lemma C10_qtime_more_encode_impl :\n  forallb (fun p => encode_agrees (qtime C10_qtime_step (fst p)) (snd p)) C10_qtime_more_enc_cases = true.\n" + VM)
        obls.append({"name": "C10_qtime_more_encode_impl",
                     "detail": "QuantizedTime: model encode = implementation encode on %d floats over %d further durations"
                               % (sum(len(c) for _, c in more["enc"]), len(more["enc"]))})
    with open(path, "w") as f:
        f.write("".join(out))
    return obls
