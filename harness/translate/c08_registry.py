"""C08 (G) translator - walks the LIVE registry of subfield serializers (se.SUBFIELD_SERIALIZERS) and the
module-level spec objects of hippolyzer/lib/base/templates.py, translates every spec tree whose classes are all
modelled into a Node / Spec term (fail-closed: an unknown class makes the whole tree 'not translated' and is
listed), and writes coq/gen/C08_registry_gen.v with one obligation per tree:

    Definition reg_<i> : spec := <term>.
    Example reg_<i>_wf : wf reg_<i> = true.          (vm_compute)      -- or  = false  for trees outside the fragment
    Definition reg_<i>_roundtrip := roundtrip e pod reg_<i> ... reg_<i>_wf       (C08_roundtrip instantiated)

The real objects stay attached to the nodes, so the correspondence runs the real registered classes."""
import dataclasses
import enum
import os

from harness.translate import c08_specs as S
from harness.translate.c08_specs import Node


class Unsupported(Exception):
    pass


MVT_PRIMS = {"MVT_U8": ("u", 1), "MVT_U16": ("u", 2), "MVT_U32": ("u", 4), "MVT_U64": ("u", 8),
             "MVT_S8": ("s", 1), "MVT_S16": ("s", 2), "MVT_S32": ("s", 4), "MVT_S64": ("s", 8), "MVT_BOOL": ("u", 1)}


class Translator:
    def __init__(self):
        self.se, self.dt = S.mods()
        self.opaque = []            # real opaque adapters, id = 100 + index
        self.stack = []             # keys of the enclosing templates (innermost last)
        self.active = set()         # cycle guard for ForwardSerializable

    # -- tables
    def enum_tbl(self, cls):
        names, tbl = {}, []
        for i, (nm, m) in enumerate(cls.__members__.items()):
            names[nm] = i
            tbl.append((i, int(m)))
        return tuple(tbl), names

    def flag_tbl(self, cls):
        allnames = {nm: i for i, nm in enumerate(cls.__members__)}
        tbl = []
        for m in iter(cls):
            v = int(m)
            if v <= 0 or v & (v - 1):
                raise Unsupported("IntFlag class with a canonical multi-bit member: " + cls.__name__)
            tbl.append((allnames[m.name], v))
        return tuple(tbl), allnames

    def prim(self, o):
        se = self.se
        for key, p in (("u", 1), se.U8), (("u", 2), se.U16), (("u", 4), se.U32), (("u", 8), se.U64), \
                (("s", 1), se.S8), (("s", 2), se.S16), (("s", 4), se.S32), (("s", 8), se.S64), \
                (("f", 4), se.F32), (("f", 8), se.F64):
            if o is p:
                return Node("prim", key, obj=o)
        raise Unsupported("Struct/SerializablePrimitive instance that is not one of the named primitives")

    def iprim(self, o):
        n = self.prim(o)
        if n.a[0] == "f":
            raise Unsupported("float used as length prefix")
        return (n.a[0] == "s", n.a[1])

    def sadapter(self, o):
        """BoolAdapter / IntEnum / IntFlag with no child (bitfield entries) -> (ad, names)"""
        se = self.se
        if type(o) is se.IdentityAdapter:
            return None, None
        if type(o) is se.BoolAdapter:
            return ("bool",), None
        if type(o) is se.IntEnum:
            tbl, names = self.enum_tbl(o.enum_cls)
            return ("enum", bool(o._strict), tbl), names
        if type(o) is se.IntFlag:
            tbl, names = self.flag_tbl(o.flag_cls)
            return ("flag", tbl), names
        raise Unsupported("bitfield entry adapter " + type(o).__name__)

    # -- the walk
    def tr(self, o) -> Node:
        se = self.se
        if isinstance(o, type):
            if o is se.UUID:
                return Node("uuid", obj=o)
            if o is se.Null:
                return Node("null", obj=o)
            if issubclass(o, se.TupleCoord) and o in (se.Vector3, se.Vector4, se.Vector3D):
                p = self.prim(o.ELEM_SPEC)
                return Node("coord", (o.__name__,), [Node("prim", p.a, obj=o.ELEM_SPEC) for _ in range(o.NUM_ELEMS)], obj=o)
            raise Unsupported("class " + o.__name__)
        t = type(o)
        if t is se.ForwardSerializable:
            if id(o) in self.active:
                raise Unsupported("recursive ForwardSerializable")
            self.active.add(id(o))
            try:
                o._ensure_evaled()
                return self.tr(o._wrapped)
            finally:
                self.active.discard(id(o))
        if t is se.SerializablePrimitive:
            return self.prim(o)
        if t is se.ByteArray:
            return Node("bytearray", self.iprim(o._len_spec), obj=o)
        if t is se.BytesFixed:
            return Node("bytesfixed", (o._size,), obj=o)
        if t is se.BytesGreedy:
            return Node("bytesgreedy", obj=o)
        if t is se.BytesTerminated:
            return Node("bytesterm", (self.terms(o.terminators), bool(o.write_terminator), bool(o.eof_terminates)), obj=o)
        if t is se.Str:
            return Node("str", self.iprim(o._bytes_tmpl._len_spec) + (bool(o._null_term),), obj=o)
        if t is se.StrFixed:
            return Node("strfixed", (o._length,), obj=o)
        if t is se.CStr:
            if o._encoding not in ("utf8", "utf-8"):
                raise Unsupported("CStr encoding " + o._encoding)
            b = o._bytes_tmpl
            return Node("cstr", (self.terms(b.terminators), bool(b.write_terminator), bool(b.eof_terminates)), obj=o)
        if t is se.Tuple:
            self.stack.append(None)
            try:
                return Node("tuple", (), [self.tr(c) for c in o._prim_seq], obj=o)
            finally:
                self.stack.pop()
        if t is se.Template:
            return self.template(o, o._template_spec, bool(o._skip_missing))
        if t is se.Dataclass:
            tmpl = o.template
            n = self.template(o, tmpl._template_spec, False, kind="dataclass")
            n.x["data_cls"] = o._data_cls
            return n
        if t is se.Collection:
            if o._len_spec is not None:
                lk = ("prefixed",) + self.iprim(o._len_spec)
            elif o._length is not None:
                lk = ("fixed", int(o._length))
            else:
                lk = ("greedy",)
            self.stack.append(None)
            try:
                return Node("coll", (lk,), [self.tr(o._entry_ser)], obj=o)
            finally:
                self.stack.pop()
        if t is se.OptionalPrefixed:
            return Node("opt", (), [self.tr(o._ser_spec)], obj=o)
        if isinstance(o, se.OptionalFlagged) and t.serialize is se.OptionalFlagged.serialize \
                and t.deserialize is se.OptionalFlagged.deserialize:
            keys = self.stack[-1] if self.stack else None
            if not keys or o._flag_field not in keys:
                raise Unsupported("OptionalFlagged whose flag field is not an earlier member of the enclosing Template")
            fs = o._flag_spec
            if isinstance(fs, se.SerializablePrimitive):
                ftbl = None
            elif type(fs) is se.IntFlag:
                ftbl, _ = self.flag_tbl(fs.flag_cls)
            else:
                raise Unsupported("OptionalFlagged flag spec " + type(fs).__name__)
            return Node("optflagged", (keys.index(o._flag_field), ftbl, int(o._flag_val)), [self.tr(o._ser_spec)], obj=o)
        if t is se.IfPresent:
            return Node("ifpresent", (), [self.tr(o._ser_spec)], obj=o)
        if t is se.LengthSwitch:
            keys = tuple(o._choice_specs.keys())
            if any(k is not None and (not isinstance(k, int) or k < 0) for k in keys):
                raise Unsupported("LengthSwitch key")
            return Node("lenswitch", (keys,), [self.tr(c) for c in o._choice_specs.values()], obj=o)
        if t is se.EnumSwitch:
            es = o._enum_spec
            if type(es) is not se.IntEnum or es._child_spec is None:
                raise Unsupported("EnumSwitch enum spec")
            tbl, names = self.enum_tbl(es.enum_cls)
            sg, w = self.iprim(es._child_spec)
            keys = tuple(int(k) for k in o._choice_specs.keys())
            n = Node("enumswitch", (tbl, bool(es._strict), sg, w, keys), [self.tr(c) for c in o._choice_specs.values()], obj=o)
            n.x["names"] = names
            return n
        if t in (se.TypedBytesGreedy, se.TypedByteArray, se.TypedBytesFixed, se.TypedBytesTerminated):
            inner = self.tr(o._spec)
            if o._lazy and S.refs(inner):
                raise Unsupported("lazy TypedBytes over a context-dependent spec")
            b = o._bytes_tmpl
            if t is se.TypedBytesGreedy:
                tk = ("greedy",)
            elif t is se.TypedByteArray:
                tk = ("array",) + self.iprim(b._len_spec)
            elif t is se.TypedBytesFixed:
                tk = ("fixed", int(b._size))
            else:
                tk = ("term", self.terms(b.terminators), bool(getattr(o, "_skip_none", True)))
            n = Node("typed", (tk, bool(o._empty_is_none), bool(o._check_trailing_bytes)), [inner], obj=o)
            n.x["lazy"] = bool(o._lazy)
            return n
        if t is se.BoolAdapter or t is se.IntEnum or t is se.IntFlag:
            if o._child_spec is None:
                raise Unsupported(t.__name__ + " without a wire spec")
            ad, names = self.sadapter(o)
            n = Node("adapter", (ad,), [self.tr(o._child_spec)], obj=o)
            if names:
                n.x["names"] = names
            return n
        if isinstance(o, se.QuantizedFloatBase) or t is se.FixedPoint:
            child = o._child_spec if isinstance(o, se.QuantizedFloatBase) else o._ser_spec
            p = self.prim(child)
            if p.a[0] == "f":
                raise Unsupported("quantized float over a float primitive")
            self.opaque.append(o)
            n = Node("adapter", (("opaque", 100 + len(self.opaque) - 1),), [p], obj=o)
            n.x["opaque"] = type(o).__name__
            return n
        if isinstance(o, se.TupleCoord):
            if isinstance(o, se.EncodedTupleCoord) and type(o).serialize is se.EncodedTupleCoord.serialize:
                name = type(o).__name__
                if name not in S.COORDS:
                    raise Unsupported("TupleCoord class " + name)
                return Node("coord", (name,), [self.tr(sp) for sp in o._elem_specs], obj=o)
            raise Unsupported("TupleCoord instance " + t.__name__)
        if t is se.PackedQuat:
            c = self.tr(o._child_spec)
            if c.k != "coord":
                raise Unsupported("PackedQuat child")
            n = Node("coord", c.a, c.ch, obj=o)
            n.x["quat"] = True
            n.x["coord_cls"] = c.a[0]
            return n
        if t is se.BitField or t is se.BitfieldDataclass:
            bf = o if t is se.BitField else o._bitfield_spec
            if bf._child_spec is None:
                raise Unsupported("BitField without a wire spec")
            p = self.prim(bf._child_spec)
            ents, keys, fnames = [], [], {}
            for i, (kk, ent) in enumerate(bf._schema.items()):
                ad, names = self.sadapter(ent.adapter)
                ents.append((i, int(ent.bits), ad))
                keys.append(kk)
                if names:
                    fnames[i] = names
            n = Node("adapter", (("bitfield", bool(bf._bitfield.shift), tuple(ents)),), [p], obj=o)
            n.x["bkeys"] = keys
            n.x["fnames"] = fnames
            if t is se.BitfieldDataclass:
                n.x["data_cls"] = o._data_cls
            return n
        if isinstance(o, se.Adapter) and t.__name__ == "Color4" and not o.invert_bytes and not o.invert_alpha:
            n = self.tr(o._child_spec)          # an identity adapter over BytesFixed(4)
            n._obj = o
            return n
        raise Unsupported(t.__module__.split(".")[-1] + "." + t.__name__)

    def terms(self, ts):
        out = []
        for x in ts:
            if not isinstance(x, (bytes, bytearray)) or len(x) != 1:
                raise Unsupported("multi-byte terminator")
            out.append(x[0])
        return tuple(out)

    def template(self, o, spec_dict, skip, kind="template"):
        keys = list(spec_dict.keys())
        chs = []
        for i, kk in enumerate(keys):
            self.stack.append(keys[:i])
            try:
                chs.append(self.tr(spec_dict[kk]))
            finally:
                self.stack.pop()
        ids = tuple(range(len(keys)))
        n = Node(kind, (ids, skip) if kind == "template" else (ids,), chs, obj=o)
        n.x["keys"] = keys
        return n


def roots():
    """(name, object, kind) for every registered spec tree of the live code"""
    se, _ = S.mods()
    import hippolyzer.lib.base.templates as T
    from hippolyzer.lib.base.message.template_dict import DEFAULT_TEMPLATE_DICT as TD
    out = []
    seen = set()

    def add(name, o, kind, extra=None):
        if o is None or o is se.UNSERIALIZABLE:
            return
        key = (id(o), extra)
        if key in seen:
            return
        seen.add(key)
        out.append((name, o, kind, extra))

    for (msg, block, var), ser in sorted(se.SUBFIELD_SERIALIZERS.items(), key=lambda kv: kv[0]):
        nm = f"{msg}.{block}.{var}"
        cls = ser if isinstance(ser, type) else type(ser)
        if isinstance(ser, (se.IntEnumSubfieldSerializer, se.IntFlagSubfieldSerializer)):
            try:
                tp = TD[msg].get_block(block).get_variable(var).type.name
            except Exception:
                tp = None
            add(nm, ser._adapter, "enum-or-flag over the message template's wire type", tp)
            continue
        t = getattr(ser, "TEMPLATE", None)
        if t is not None:
            add(nm, t, "TEMPLATE")
        ts = getattr(ser, "TEMPLATES", None)
        if isinstance(ts, dict):
            for k, v in ts.items():
                add(f"{nm}[{getattr(k, 'name', k)}]", v, "TEMPLATES entry")
        ad = getattr(ser, "ADAPTER", None)
        if ad is not None:
            add(nm, ad, "ADAPTER")
    for name in sorted(dir(T)):
        o = getattr(T, name)
        if isinstance(o, se.SerializableBase):
            add("templates." + name, o, "module-level spec")
        elif isinstance(o, dict) and o and all(isinstance(v, se.SerializableBase) or (isinstance(v, type) and issubclass(v, se.SerializableBase))
                                               for v in o.values()):
            if all(isinstance(k, (str, enum.Enum, int)) for k in o):
                for k, v in o.items():
                    add(f"templates.{name}[{getattr(k, 'name', k)}]", v, "module-level spec table entry")
    return out


def translate_all():
    """-> (trees, skipped): trees = [(name, kind, Node)], skipped = [(name, kind, reason)]"""
    se, _ = S.mods()
    tr = Translator()
    trees, skipped = [], []
    for name, o, kind, extra in roots():
        try:
            if kind.startswith("enum-or-flag"):
                if extra not in MVT_PRIMS:
                    raise Unsupported("wire type of the message variable is not an integer (%s)" % extra)
                pk = MVT_PRIMS[extra]
                ad, names = tr.sadapter(o)
                real = (se.IntEnum(o.enum_cls, S.prim_obj(*pk), strict=o._strict) if type(o) is se.IntEnum
                        else se.IntFlag(o.flag_cls, S.prim_obj(*pk)))
                n = Node("adapter", (ad,), [Node("prim", pk)], obj=real)
                n.x["names"] = names
            else:
                tr.stack = []
                n = tr.tr(o)
            trees.append((name, kind, n))
        except Unsupported as ex:
            skipped.append((name, kind, str(ex)))
        except Exception as ex:       # fail closed
            skipped.append((name, kind, "translator error: " + type(ex).__name__ + ": " + str(ex)[:80]))
    return trees, skipped


# ---------------------------------------------------------------- Coq output

def _cN(i):
    return str(int(i))


def _cZ(z):
    return f"({int(z)})%Z" if z < 0 else f"{int(z)}%Z"


def _cbool(b):
    return "true" if b else "false"


def _cip(sg, w):
    return f"(IP {_cbool(sg)} W{w})"


def _clist(items):
    return "[" + "; ".join(items) + "]"


def _ctbl(tbl):
    return _clist(f"({_cN(n)}, {_cZ(z)})" for n, z in tbl)


def _csad(ad):
    if ad[0] == "bool":
        return "ABool"
    if ad[0] == "enum":
        return f"(AEnum {_ctbl(ad[2])} {_cbool(ad[1])})"
    if ad[0] == "flag":
        return f"(AFlag {_ctbl(ad[1])})"
    if ad[0] == "opaque":
        return f"(AOpaqueInt {_cN(ad[1])})"
    raise ValueError(ad)


def coq_term(n: Node) -> str:
    k, a = n.k, n.a
    ch = [coq_term(c) for c in n.ch]
    if k == "prim":
        if a[0] == "f":
            return "(SPrim PF32)" if a[1] == 4 else "(SPrim PF64)"
        return f"(SPrim (PI {_cip(a[0] == 's', a[1])}))"
    if k == "bytearray":
        return f"(SByteArray {_cip(*a)})"
    if k == "bytesfixed":
        return f"(SBytesFixed {_cN(a[0])})"
    if k == "bytesgreedy":
        return "SBytesGreedy"
    if k in ("bytesterm", "cstr"):
        return f"({'SBytesTerm' if k == 'bytesterm' else 'SCStr'} {_clist(_cN(t) for t in a[0])} {_cbool(a[1])} {_cbool(a[2])})"
    if k == "str":
        return f"(SStr {_cip(a[0], a[1])} {_cbool(a[2])})"
    if k == "strfixed":
        return f"(SStrFixed {_cN(a[0])})"
    if k == "uuid":
        return "SUUID"
    if k == "null":
        return "SNull"
    if k in ("tuple", "coord"):
        return f"(STuple {_clist(ch)})"
    if k == "template":
        return f"(STemplate {_clist(f'({_cN(nm)}, {c})' for nm, c in zip(a[0], ch))} {_cbool(a[1])} false)"
    if k == "dataclass":
        return f"(STemplate {_clist(f'({_cN(nm)}, {c})' for nm, c in zip(a[0], ch))} false true)"
    if k == "coll":
        lk = a[0]
        ls = f"(LPrefixed {_cip(lk[1], lk[2])})" if lk[0] == "prefixed" else (f"(LFixed {_cN(lk[1])})" if lk[0] == "fixed" else "LGreedy")
        return f"(SCollection {ls} {ch[0]})"
    if k == "opt":
        return f"(SOptPrefixed {ch[0]})"
    if k == "adapter":
        ad = a[0]
        if ad[0] == "bitfield":
            ents = _clist(f"({_cN(nm)}, {_cN(bits)}, {'None' if fa is None else 'Some ' + _csad(fa)})" for nm, bits, fa in ad[2])
            return f"(SAdapter (ABitField {ents} {_cbool(ad[1])}) {ch[0]})"
        return f"(SAdapter (ASimple {_csad(ad)}) {ch[0]})"
    if k == "typed":
        tk, en, ct = a
        if tk[0] == "greedy":
            ks = "TBGreedy"
        elif tk[0] == "array":
            ks = f"(TBArray {_cip(tk[1], tk[2])})"
        elif tk[0] == "fixed":
            ks = f"(TBFixed {_cN(tk[1])})"
        else:
            ks = f"(TBTerm {_clist(_cN(t) for t in tk[1])} {_cbool(tk[2])})"
        return f"(STypedBytes {ks} {ch[0]} {_cbool(en)} {_cbool(ct)})"
    if k == "ifpresent":
        return f"(SIfPresent {ch[0]})"
    if k == "lenswitch":
        return "(SLengthSwitch " + _clist(f"({'None' if kk is None else 'Some ' + _cN(kk)}, {c})" for kk, c in zip(a[0], ch)) + ")"
    if k == "enumswitch":
        tbl, strict, sg, w, keys = a
        return f"(SEnumSwitch {_ctbl(tbl)} {_cbool(strict)} {_cip(sg, w)} " + _clist(f"({_cZ(z)}, {c})" for z, c in zip(keys, ch)) + ")"
    if k == "optflagged":
        f, ftbl, mask = a
        return f"(SOptFlagged {_cN(f)} {'None' if ftbl is None else '(Some ' + _ctbl(ftbl) + ')'} {_cZ(mask)} {ch[0]})"
    raise ValueError(k)


def write_gen(path, trees, skipped):
    """writes the generated Coq file; returns the obligation descriptors"""
    lines = ["(* GENERATED on every run by harness/translate/c08_registry.py from the live registry of /repo - do not edit. *)",
             "From Coq Require Import NArith ZArith List Bool.",
             "From HV Require Import Spec.Spec Spec.SpecProofs.",
             "Import ListNotations.",
             "Open Scope N_scope.", ""]
    obls = []
    for i, (name, kind, n) in enumerate(trees):
        iswf = S.wf(n)
        lines.append(f"(* {name}  [{kind}]{'' if iswf else '  -- OUTSIDE the proved fragment'} *)")
        lines.append(f"Definition reg_{i} : spec := {coq_term(n)}.")
        lines.append(f"Example reg_{i}_wf : wf reg_{i} = {_cbool(iswf)}. Proof. vm_compute. reflexivity. Qed.")
        if iswf:
            lines.append(f"Definition reg_{i}_roundtrip e pod cs cd v b rest := roundtrip e pod reg_{i} cs cd v b rest reg_{i}_wf.")
        lines.append("")
        obls.append({"name": f"registry[{name}] wf = {_cbool(iswf)}", "detail": f"{kind}; {n.size()} nodes"
                     + ("; C08_roundtrip instantiated" if iswf else "; not in the proved fragment")})
    lines.append("(* not translated (a class outside the modelled grammar): fail-closed, nothing is claimed")
    for name, kind, why in skipped:
        lines.append(f"   {name} [{kind}]: {why}".replace("*)", "* )"))
    lines.append("*)")
    os.makedirs(os.path.dirname(path), exist_ok=True)
    with open(path, "w") as f:
        f.write("\n".join(lines) + "\n")
    return obls
