"""Shared driver for every property check.

A property module (harness/props/cNN.py) provides:

  PROP_ID        "C03"
  COQ_PROPS      "theories/Props/C03.v"          (property theorems, Print Assumptions)
  COQ_EXTRA      [..]  further .v targets to build (optional)
  EXTRACT        ("theories/Extract/ExC03.v", "c03_driver.ml")  or None
  generate(ctx)  -> list of generated-obligation descriptors, writes coq/gen/*.v  (optional)
  correspond(ctx)-> CorrResult          model vs implementation on the same cases
  search(ctx, hints) -> failing case dict or None   (impl-level oracle of the property itself)
  replay(ctx, case)  -> (still_fails: bool, detail)     used by --replay and known findings
  TRUSTED        list of strings (modelled-not-verified, per property)

The framework turns broken obligations (P: hand theorems, G: generated
obligations, M: correspondence) into VIOLATION / KNOWN-FINDING lines as
described in DESIGN.md section 4.
"""
from __future__ import annotations

import dataclasses
import hashlib
import json
import os
import random
import re
import shutil
import subprocess
import sys
import time
from typing import Any, Callable, Dict, List, Optional

VERIF = os.path.dirname(os.path.dirname(os.path.dirname(os.path.abspath(__file__))))
COQ = os.path.join(VERIF, "coq")
REPO = os.environ.get("VERIF_REPO", "/repo")
GUARD = "SALADDAIS_HIPPOLYZER_VERIF"

FORBIDDEN = re.compile(
    r"\b(Admitted|admit|Axiom|Axioms|Parameter|Parameters|Conjecture|Conjectures|"
    r"Hypothesis|Hypotheses|Variable|Variables|Context)\b|Unset\s+Guard|bypass_check|Admit\s+Obligations|"
    r"-type-in-type|-impredicative-set|Unset\s+Positivity|Unset\s+Universe|native_compute")
# `Variable`/`Hypothesis`/`Context` are legal *inside a Section*; files that use them are
# listed here explicitly and are checked to keep them between Section/End.
SECTION_OK = re.compile(r"\b(Hypothesis|Hypotheses|Variable|Variables|Context)\b")

ALLOWED_AXIOMS = {
    # standard-library axioms the brief allows when named in the trusted base
    "functional_extensionality_dep", "FunctionalExtensionality.functional_extensionality_dep",
    "Eqdep.Eq_rect_eq.eq_rect_eq", "eq_rect_eq", "JMeq_eq", "JMeq.JMeq_eq",
    "proof_irrelevance", "ProofIrrelevance.proof_irrelevance",
    "classic", "Classical_Prop.classic",
    # Coq Reals (needed by anything stated through Flocq / Rcompare): C10_quanttime_roundtrip_generic
    "ClassicalDedekindReals.sig_forall_dec", "ClassicalDedekindReals.sig_not_dec",
}
PRIMITIVE_PREFIXES = ("PrimFloat.", "Uint63.", "PrimInt63.", "FloatOps.", "PArray.", "Sint63.",
                      "FloatAxioms.", "SpecFloat.", "Float64.", "float", "int")


@dataclasses.dataclass
class Obligation:
    name: str
    kind: str            # "P" hand theorem, "G" generated, "M" correspondence
    ok: bool
    detail: str = ""


@dataclasses.dataclass
class CorrResult:
    suite: str
    evaluations: int = 0
    distinct_nontrivial: int = 0
    disagreements: List[dict] = dataclasses.field(default_factory=list)
    samples: List[Any] = dataclasses.field(default_factory=list)
    distribution: Dict[str, Any] = dataclasses.field(default_factory=dict)
    exhaustive: bool = False
    rule: str = ""
    # property-level failures found on the implementation while running cases
    impl_violations: List[dict] = dataclasses.field(default_factory=list)


class Ctx:
    def __init__(self, prop_id: str, tier: str, seed: int):
        self.prop_id = prop_id
        self.tier = tier
        self.seed = seed
        self.repo = REPO
        self.rng = random.Random((seed << 8) ^ int(hashlib.sha1(prop_id.encode()).hexdigest()[:8], 16))
        self.scratch = os.path.join(VERIF, ".scratch", f"{prop_id}-{os.getpid()}")
        os.makedirs(self.scratch, exist_ok=True)
        self.t0 = time.time()
        self.notes: List[str] = []
        self.coq_log = ""
        try:
            self.changed_files = changed_fingerprints(prop_id, self.repo)
        except Exception:
            self.changed_files = []
        # anchored source differs from the recorded baseline: explore deeper than a plain quick run
        self.escalated = bool(self.changed_files) and tier == "quick" and not os.environ.get("VERIF_NO_ESCALATE")

    @property
    def thorough(self) -> bool:
        return self.tier == "thorough"

    def pick(self, quick, thorough):
        if self.thorough:
            return thorough
        if self.escalated and type(quick) is int and type(thorough) is int and thorough > quick > 0:
            return int((quick * thorough) ** 0.5)
        return quick

    def cleanup(self):
        shutil.rmtree(self.scratch, ignore_errors=True)
        shutil.rmtree(os.path.join(COQ, "ocaml", "build", f"{self.prop_id}.{os.getpid()}"), ignore_errors=True)

    def run_driver(self, lines, timeout=3000):
        return run_driver(self.driver, lines, timeout=timeout)


# --------------------------------------------------------------------------
# Source fingerprints (DESIGN 3.2): a changed anchored file is not an alarm, it escalates the
# correspondence budget of a quick run (ctx.pick returns a value between quick and thorough).

def anchor_files(prop_id: str) -> List[str]:
    for line in open(os.path.join(VERIF, "properties.jsonl")):
        p = json.loads(line)
        if p["id"] == prop_id:
            return list(p["anchors"]["files"])
    return []


def file_fingerprint(path: str) -> str:
    try:
        data = open(path, "rb").read()
    except OSError:
        return "missing"
    if path.endswith(".py"):
        try:
            import ast
            return hashlib.sha1(ast.dump(ast.parse(data), include_attributes=False).encode()).hexdigest()
        except SyntaxError:
            return "syntax-error"
    return hashlib.sha1(data).hexdigest()


def fingerprints(prop_id: str, repo: str) -> Dict[str, str]:
    return {f: file_fingerprint(os.path.join(repo, f)) for f in anchor_files(prop_id)}


def changed_fingerprints(prop_id: str, repo: str) -> List[str]:
    p = os.path.join(VERIF, "harness", "fingerprints.json")
    if not os.path.exists(p):
        return []
    base = json.load(open(p)).get(prop_id, {})
    cur = fingerprints(prop_id, repo)
    return sorted(f for f in cur if base.get(f) not in (None, cur[f]))


# --------------------------------------------------------------------------
# Coq build

_MEM_CAP = 24 * 1024 ** 3      # address-space cap per build process: a runaway coqc fails instead of exhausting the box


def _limits():
    import resource
    os.setsid()
    try:
        resource.setrlimit(resource.RLIMIT_AS, (_MEM_CAP, _MEM_CAP))
    except Exception:
        pass


def _run(cmd, cwd=None, timeout=1800, env=None, input=None):
    """run a build tool in its own process group under a time and memory limit; on timeout the whole group (make AND the
    coqc processes it started) is killed and the call reports failure (rc 124) instead of leaving a coqc holding the lock"""
    import signal
    p = subprocess.Popen(cmd, cwd=cwd, env=env, stdin=subprocess.PIPE if input is not None else None,
                         stdout=subprocess.PIPE, stderr=subprocess.STDOUT, text=True, preexec_fn=_limits)
    try:
        out, _ = p.communicate(input=input, timeout=timeout)
        return p.returncode, out
    except subprocess.TimeoutExpired:
        try:
            os.killpg(p.pid, signal.SIGKILL)
        except Exception:
            p.kill()
        out, _ = p.communicate()
        return 124, (out or "") + "\nTIMEOUT after %ss: %s" % (timeout, " ".join(cmd[:3]))


class HarnessTimeout(Exception):
    pass


class _watchdog:
    """the implementation under test may hang (a blocking queue, a finalizer, a lost wake-up): the suite is then abandoned
    after `limit` seconds and reported as a failed correspondence obligation instead of hanging the check"""

    def __init__(self, limit, what):
        self.limit, self.what = limit, what

    def __enter__(self):
        import signal

        def on_alarm(_sig, _frm):
            raise HarnessTimeout("%s did not finish within %d s (the implementation under test hangs or is far slower "
                                 "than on the unchanged tree)" % (self.what, self.limit))
        try:
            self.old = signal.signal(signal.SIGALRM, on_alarm)
            # fires again every 5 s: an exception raised inside a finalizer or swallowed by a bare `except:` of the code under
            # test does not end the wait, the next one may
            signal.setitimer(signal.ITIMER_REAL, self.limit, 5)
        except Exception:
            self.old = None
        return self

    def __exit__(self, *a):
        import signal
        try:
            signal.setitimer(signal.ITIMER_REAL, 0, 0)
            if self.old is not None:
                signal.signal(signal.SIGALRM, self.old)
        except Exception:
            pass
        return False


class _Lock:
    """Cross-process lock on coq/.lock, re-entrant within one process."""
    depth = 0
    fh = None

    def __enter__(self):
        import fcntl
        if _Lock.depth == 0:
            os.makedirs(COQ, exist_ok=True)
            _Lock.fh = open(os.path.join(COQ, ".lock"), "w")
            fcntl.flock(_Lock.fh, fcntl.LOCK_EX)
        _Lock.depth += 1
        return self

    def __exit__(self, *a):
        import fcntl
        _Lock.depth -= 1
        if _Lock.depth == 0:
            fcntl.flock(_Lock.fh, fcntl.LOCK_UN)
            _Lock.fh.close()
            _Lock.fh = None


def coq_sources() -> List[str]:
    out = []
    for root in ("theories", "gen"):
        for d, _, fs in os.walk(os.path.join(COQ, root)):
            for f in sorted(fs):
                if f.endswith(".v"):
                    rel = os.path.relpath(os.path.join(d, f), COQ)
                    if rel.startswith("theories/Extract/"):
                        continue    # compiled separately (writes .ml files)
                    out.append(rel)
    return sorted(out)


def write_coqproject():
    lines = ["-Q theories HV", "-Q gen HVgen", "-arg -w -arg -notation-overridden,-deprecated-hint-without-locality,-ambiguous-paths"]
    lines += coq_sources()
    txt = "\n".join(lines) + "\n"
    p = os.path.join(COQ, "_CoqProject")
    old = open(p).read() if os.path.exists(p) else None
    if old != txt or not os.path.exists(os.path.join(COQ, "Makefile")):
        with open(p, "w") as f:
            f.write(txt)
        rc, out = _run(["coq_makefile", "-f", "_CoqProject", "-o", "Makefile"], cwd=COQ)
        if rc != 0:
            raise RuntimeError("coq_makefile failed: " + out)


def gate() -> List[str]:
    """Reject forbidden constructs anywhere in the development (comments are stripped first)."""
    bad = []
    for rel in coq_sources() + [os.path.relpath(os.path.join(d, f), COQ)
                                for d, _, fs in os.walk(os.path.join(COQ, "theories", "Extract"))
                                for f in fs if f.endswith(".v")]:
        src = open(os.path.join(COQ, rel)).read()
        src = strip_comments(src)
        depth = 0
        for ln, line in enumerate(src.split("\n"), 1):
            if re.match(r"\s*Section\b", line):
                depth += 1
            elif re.match(r"\s*End\b", line) and depth > 0:
                depth -= 1
            for m in FORBIDDEN.finditer(line):
                tok = m.group(0)
                if SECTION_OK.fullmatch(tok) and depth > 0:
                    continue
                bad.append(f"{rel}:{ln}: {tok}")
    return bad


def strip_comments(src: str) -> str:
    out = []
    depth = 0
    i = 0
    instr = False
    while i < len(src):
        if not instr and src.startswith("(*", i):
            depth += 1
            i += 2
            continue
        if not instr and depth and src.startswith("*)", i):
            depth -= 1
            i += 2
            continue
        ch = src[i]
        if depth == 0:
            if ch == '"':
                instr = not instr
            out.append(ch)
        elif ch == "\n":
            out.append(ch)
        i += 1
    return "".join(out)


def coq_build(targets: List[str], timeout=3000) -> (bool, str):
    """make the given .vo targets (full .vo build, never -vos)."""
    with _Lock():
        write_coqproject()
        vos = [t[:-2] + ".vo" if t.endswith(".v") else t for t in targets]
        rc, out = _run(["make", "-j16", "-k"] + vos, cwd=COQ, timeout=timeout)
        return rc == 0, out


def coq_clean():
    with _Lock():
        for d, _, fs in os.walk(COQ):
            for f in fs:
                if f.endswith((".vo", ".vok", ".vos", ".glob", ".aux")):
                    os.unlink(os.path.join(d, f))
        for f in ("Makefile", "Makefile.conf", ".Makefile.d", "_CoqProject"):
            p = os.path.join(COQ, f)
            if os.path.exists(p):
                os.unlink(p)


def enclosing_statement(vfile: str, line: int) -> str:
    try:
        lines = open(os.path.join(COQ, vfile)).read().split("\n")
    except OSError:
        return "?"
    for i in range(min(line, len(lines)) - 1, -1, -1):
        m = re.match(r"\s*(Theorem|Lemma|Example|Corollary|Definition|Fixpoint|Fact|Remark|Instance)\s+([A-Za-z0-9_']+)", lines[i])
        if m:
            return m.group(2)
    return "?"


def parse_coq_errors(log: str) -> List[dict]:
    errs = []
    for m in re.finditer(r'File "\./?([^"]+)", line (\d+), characters [\d-]+:\s*\nError:?\s*((?:.|\n)*?)(?=\n\s*\n|\nmake|\Z)', log):
        f, ln, msg = m.group(1), int(m.group(2)), m.group(3).strip()
        errs.append({"file": f, "line": ln, "statement": enclosing_statement(f, ln), "message": msg[:400]})
    return errs


def print_assumptions(vfile: str, scratch: str) -> (bool, Dict[str, List[str]], str):
    """Re-run coqc on a Props file to capture what every `Print Assumptions` prints."""
    src = strip_comments(open(os.path.join(COQ, vfile)).read())
    names = re.findall(r"Print\s+Assumptions\s+([A-Za-z0-9_'.]+)\s*\.", src)
    out_vo = os.path.join(scratch, os.path.basename(vfile)[:-2] + ".vo")
    with _Lock():
        rc, out = _run(["coqc", "-Q", "theories", "HV", "-Q", "gen", "HVgen", "-w", "none", "-o", out_vo, vfile],
                       cwd=COQ, timeout=1800)
    if rc != 0:
        return False, {}, out
    blocks = re.split(r"(?m)^(?=Closed under the global context|Axioms:)", out)
    blocks = [b for b in blocks if b.startswith(("Closed under", "Axioms:"))]
    res: Dict[str, List[str]] = {}
    for n, b in zip(names, blocks):
        if b.startswith("Closed"):
            res[n] = []
        else:
            ax = re.findall(r"(?m)^([A-Za-z_][A-Za-z0-9_'.]*)\s*:", b[len("Axioms:"):])
            res[n] = ax
    ok = len(blocks) == len(names)
    return ok, res, out


def axiom_allowed(ax: str) -> bool:
    return ax in ALLOWED_AXIOMS or ax.split(".")[-1] in ALLOWED_AXIOMS or ax.startswith(PRIMITIVE_PREFIXES)


def count_theorems(vfile: str) -> List[str]:
    src = strip_comments(open(os.path.join(COQ, vfile)).read())
    return re.findall(r"(?m)^\s*(?:Theorem|Example)\s+([A-Za-z0-9_']+)", src)


# --------------------------------------------------------------------------
# Extraction + OCaml driver

PRELUDE = r'''
(* conversions between OCaml ints/strings and the extracted datatypes *)
let rec pos_of_int (n:int) : positive =
  if n <= 1 then XH else if n land 1 = 0 then XO (pos_of_int (n lsr 1)) else XI (pos_of_int (n lsr 1))
let rec int_of_pos (p:positive) : int =
  match p with XH -> 1 | XO q -> 2 * int_of_pos q | XI q -> 2 * int_of_pos q + 1
let n_of_int (i:int) : n = if i = 0 then N0 else Npos (pos_of_int i)
let int_of_n (x:n) : int = match x with N0 -> 0 | Npos p -> int_of_pos p
let rec nat_of_int (i:int) : nat = if i <= 0 then O else S (nat_of_int (i-1))
let rec int_of_nat (x:nat) : int = match x with O -> 0 | S y -> 1 + int_of_nat y
let words (s:string) : string list = List.filter (fun w -> w <> "") (String.split_on_char ' ' s)
let ints_of_words ws = List.map int_of_string ws
let string_of_ints l = String.concat " " (List.map string_of_int l)
'''
PRELUDE_Z = r'''
let z_of_int (i:int) : z = if i = 0 then Z0 else if i > 0 then Zpos (pos_of_int i) else Zneg (pos_of_int (-i))
let int_of_z (x:z) : int = match x with Z0 -> 0 | Zpos p -> int_of_pos p | Zneg p -> - (int_of_pos p)
'''


def build_driver(prop_id: str, extract_v: str, driver_ml: str, with_z=False) -> (bool, str, str):
    """Compile Extract/ExCnn.v (which writes <module>.ml into the build dir) and the driver."""
    bdir = os.path.join(COQ, "ocaml", "build", f"{prop_id}.{os.getpid()}")
    with _Lock():
        shutil.rmtree(bdir, ignore_errors=True)
        os.makedirs(bdir)
        rc, out = _run(["coqc", "-Q", os.path.join(COQ, "theories"), "HV", "-Q", os.path.join(COQ, "gen"), "HVgen",
                        "-w", "none", "-o", os.path.join(bdir, os.path.basename(extract_v)[:-2] + ".vo"), os.path.join(COQ, extract_v)],
                       cwd=bdir, timeout=1800)
        if rc != 0:
            return False, out, ""
        mls = sorted(f for f in os.listdir(bdir) if f.endswith(".ml"))
        if len(mls) != 1:
            return False, f"expected exactly one extracted .ml, got {mls}", ""
        mod = mls[0][:-3]
        drv_src = open(os.path.join(COQ, "ocaml", driver_ml)).read()
        with open(os.path.join(bdir, "driver.ml"), "w") as f:
            f.write(f"open {mod.capitalize()}\n" + PRELUDE + (PRELUDE_Z if with_z else "") + drv_src)
        files = [mod + ".mli"] if os.path.exists(os.path.join(bdir, mod + ".mli")) else []
        files += [mod + ".ml", "driver.ml"]
        rc, out2 = _run(["ocamlfind", "ocamlopt", "-O2" if False else "-inline", "50", "-w", "-a", "-o", "driver"] + files,
                        cwd=bdir, timeout=900)
        return rc == 0, out + out2, os.path.join(bdir, "driver")


def run_driver(exe: str, lines: List[str], timeout=3000) -> List[str]:
    p = subprocess.run([exe], input="\n".join(lines) + "\n", stdout=subprocess.PIPE, stderr=subprocess.PIPE,
                       text=True, timeout=timeout, preexec_fn=_unlimit_stack)
    if p.returncode != 0:
        raise RuntimeError(f"model driver failed rc={p.returncode}: {p.stderr[:2000]}")
    out = p.stdout.split("\n")
    if out and out[-1] == "":
        out.pop()
    if len(out) != len(lines):
        raise RuntimeError(f"model driver printed {len(out)} lines for {len(lines)} cases")
    return out


def _unlimit_stack():
    import resource
    try:
        resource.setrlimit(resource.RLIMIT_STACK, (resource.RLIM_INFINITY, resource.RLIM_INFINITY))
    except Exception:
        try:
            soft, hard = resource.getrlimit(resource.RLIMIT_STACK)
            resource.setrlimit(resource.RLIMIT_STACK, (hard, hard))
        except Exception:
            pass


# --------------------------------------------------------------------------
# Known findings

def load_findings(prop_id: str) -> List[dict]:
    p = os.path.join(VERIF, "known_findings.json")
    if not os.path.exists(p):
        return []
    data = json.load(open(p))
    return [f for f in data.get("findings", []) if f.get("property") == prop_id]


# --------------------------------------------------------------------------
# Evidence / replay files

def write_replay(ctx: Ctx, payload: dict) -> str:
    d = os.path.join(VERIF, "evidence", "replays")
    os.makedirs(d, exist_ok=True)
    blob = json.dumps(payload, sort_keys=True, default=str)
    h = hashlib.sha1(blob.encode()).hexdigest()[:12]
    p = os.path.join(d, f"{ctx.prop_id}-{h}.json")
    with open(p, "w") as f:
        json.dump(payload, f, indent=1, sort_keys=True, default=str)
    return p


def write_evidence(ctx: Ctx, obligations: List[Obligation], corr: List[CorrResult], assumptions: dict,
                   trusted: List[str], violations: int, extra: dict):
    evals = sum(c.evaluations for c in corr)
    dn = sum(c.distinct_nontrivial for c in corr)
    samples = []
    for c in corr:
        samples += c.samples[:6]
    for o in obligations:
        if o.kind in ("P", "G") and len(samples) < 40:
            samples.append({"obligation": o.name, "kind": o.kind, "ok": o.ok})
    cov = {
        "obligations": len(obligations),
        "discharged": sum(1 for o in obligations if o.ok),
        "checker_cmd": "cd /verif/coq && coq_makefile -f _CoqProject -o Makefile && make -j16 (coqc 8.16.1, full .vo) ; "
                       "coqc theories/Props/%s.v (Print Assumptions captured)" % ctx.prop_id
                       + (" ; coqchk -silent -o on the property's .vo closure" if extra.get("coqchk") else ""),
        "trusted_base": trusted,
        "evaluations": evals,
        "distinct_nontrivial": dn,
        "rule": " | ".join(f"[{c.suite}] {c.rule}" for c in corr),
        "samples": samples or [{"note": "no cases"}],
        "exhaustive": all(c.exhaustive for c in corr) if corr else False,
        "obligation_list": [dataclasses.asdict(o) for o in obligations],
        "print_assumptions": assumptions,
        "correspondence": [{"suite": c.suite, "evaluations": c.evaluations,
                            "distinct_nontrivial": c.distinct_nontrivial,
                            "disagreements": len(c.disagreements),
                            "impl_violations": len(c.impl_violations),
                            "exhaustive": c.exhaustive,
                            "distribution": c.distribution} for c in corr],
    }
    cov.update(extra)
    ev = {
        "property_id": ctx.prop_id,
        "tier": ctx.tier,
        "seed": ctx.seed,
        "level": "proof",
        "coverage": cov,
        "assumptions": trusted,
        "wall_s": round(time.time() - ctx.t0, 2),
        "violations": violations,
    }
    # runs against a scratch copy of the repository (mutant / seeded-change self-tests) must not
    # overwrite the evidence of the real tree
    evdir = os.path.join(VERIF, "evidence") if os.path.realpath(REPO) == "/repo" else os.path.join(VERIF, "evidence", "replays", "alt")
    os.makedirs(evdir, exist_ok=True)
    p = os.path.join(evdir, f"{ctx.prop_id}.json")
    tmp = p + f".tmp{os.getpid()}"
    with open(tmp, "w") as f:
        json.dump(ev, f, indent=1, default=str)
    os.replace(tmp, p)


BASE_TRUSTED = [
    "Coq 8.16.1 kernel (coqc); vm_compute used, native_compute not used; no Axiom/Parameter/Admitted, no disabled checks (grep gate enforced on every run)",
    "OCaml extraction (Require Extraction; ExtrOcamlBasic only; no Extract Constant, Extract Inductive only as declared by ExtrOcamlBasic for bool/option/list/prod/unit/sumbool) + ocamlfind ocamlopt 4.13.1 + the hand-written driver glue in coq/ocaml/",
    "the Python correspondence harness (case generation, adapters calling /repo's implementation, canonicalisation, diff) and any (G) translator named for this property",
    "CPython 3.12 and the standard/third-party libraries the modelled code calls (struct, uuid, codecs, ...) are modelled, not verified",
]


# --------------------------------------------------------------------------
# main flow

def run_property(mod, tier: str, seed: int, replay_path: Optional[str] = None) -> int:
    ctx = Ctx(mod.PROP_ID, tier, seed)
    try:
        if replay_path:
            return _do_replay(mod, ctx, replay_path)
        return _do_check(mod, ctx)
    finally:
        ctx.cleanup()


def _do_replay(mod, ctx: Ctx, path: str) -> int:
    payload = json.load(open(path))
    case = payload.get("case")
    if payload.get("kind") == "no-failing-input-found" or case is None:
        # nothing to replay on the implementation: re-run the check itself
        return _do_check(mod, ctx)
    fails, detail = mod.replay(ctx, case)
    print(f"replay {path}: {'still fails' if fails else 'passes'}: {detail}")
    if fails:
        print(f"VIOLATION property={ctx.prop_id} replay={path}")
        return 1
    return 0


def _do_check(mod, ctx: Ctx) -> int:
    obligations: List[Obligation] = []
    hints: List[dict] = []
    extra: dict = {}

    # 0. gate
    bad = gate()
    obligations.append(Obligation("no-forbidden-constructs(grep gate)", "P", not bad, "; ".join(bad[:10])))

    # 1. generated data
    gen_obls = []
    _gl = _Lock()
    _gl.__enter__()     # generated files are shared between properties: regenerate and build in one critical section
    if hasattr(mod, "generate"):
        try:
            gen_obls = mod.generate(ctx) or []
        except Exception as e:  # translator failure is an obligation failure (fail closed)
            import traceback
            obligations.append(Obligation("translator", "G", False, traceback.format_exc()[-1500:]))

    # 2. coq build
    targets = [mod.COQ_PROPS] + list(getattr(mod, "COQ_EXTRA", []))
    try:
        ok, log = coq_build(targets)
    finally:
        _gl.__exit__()
    ctx.coq_log = log
    errs = parse_coq_errors(log) if not ok else []
    thms = count_theorems(mod.COQ_PROPS)
    gen_names = {g["name"]: g for g in gen_obls}
    failed_files = {e["file"] for e in errs}
    failed_stmts = {e["statement"] for e in errs}
    props_ok = ok or not any(e["file"] == mod.COQ_PROPS or not e["file"].startswith("gen/") for e in errs)
    if not ok and not errs:
        props_ok = False
        errs = [{"file": "?", "line": 0, "statement": "?", "message": log[-800:]}]

    # 3. assumptions
    assumptions: Dict[str, List[str]] = {}
    pa_ok = False
    if ok:
        pa_ok, assumptions, pa_out = print_assumptions(mod.COQ_PROPS, ctx.scratch)
    for t in thms:
        if not ok:
            t_ok = False
            detail = "build failed: " + "; ".join(f"{e['file']}:{e['line']} ({e['statement']}) {e['message'][:160]}" for e in errs[:3])
        else:
            ax = assumptions.get(t)
            if t.startswith("C") and ax is None and not re.match(r".*_ex_|.*ex_", t) and t in re.findall(r"Theorem\s+(\S+)", open(os.path.join(COQ, mod.COQ_PROPS)).read()):
                t_ok, detail = False, "no Print Assumptions output captured for this theorem"
            elif ax and not all(axiom_allowed(a) for a in ax):
                t_ok, detail = False, "depends on disallowed axioms: " + ", ".join(ax)
            else:
                t_ok, detail = True, ("Closed under the global context" if not ax else "axioms: " + ", ".join(ax or []))
        obligations.append(Obligation(t, "P", t_ok, detail))
    for g in gen_obls:
        obligations.append(Obligation(g["name"], "G", bool(ok), g.get("detail", "") if ok else "generated obligation did not compile"))
    for e in errs:
        hints.append({"coq_error": e})

    # 4. extraction + correspondence
    corr: List[CorrResult] = []
    driver = None
    if getattr(mod, "EXTRACT", None):
        ex_v, drv = mod.EXTRACT[0], mod.EXTRACT[1]
        d_ok, d_log, driver = build_driver(ctx.prop_id, ex_v, drv, with_z=getattr(mod, "EXTRACT_Z", False))
        obligations.append(Obligation("extracted-model-builds", "M", d_ok, "" if d_ok else d_log[-800:]))
        if not d_ok:
            driver = None
    ctx.driver = driver
    if hasattr(mod, "correspond") and (driver or not getattr(mod, "EXTRACT", None)):
        try:
            with _watchdog(int(os.environ.get("VERIF_CORR_LIMIT", "1500" if not ctx.thorough else "10800")), "correspondence"):
                res = mod.correspond(ctx)
            corr = res if isinstance(res, list) else [res]
        except Exception:
            import traceback
            obligations.append(Obligation("correspondence-harness", "M", False, traceback.format_exc()[-1500:]))
    known = load_findings(ctx.prop_id)
    known_hit = {}
    for c in corr:
        fresh = []
        for v in c.impl_violations:
            kf = _matching_known(v, known)
            if kf is not None:
                known_hit[kf.get("id", kf["what"])] = kf
            else:
                fresh.append(v)
        c.impl_violations = fresh
        c_ok = not c.disagreements and not c.impl_violations
        obligations.append(Obligation(f"correspondence:{c.suite}", "M", c_ok,
                                      f"{c.evaluations} cases, {len(c.disagreements)} disagreements, "
                                      f"{len(c.impl_violations)} impl-level property failures"))
        for d in c.disagreements[:5]:
            hints.append({"disagreement": d, "suite": c.suite})
        for d in c.impl_violations[:5]:
            hints.append({"impl_violation": d, "suite": c.suite})

    if ctx.thorough and ok and hasattr(mod, "COQ_PROPS") and not os.environ.get("VERIF_SKIP_COQCHK"):
        chk_ok, chk_out = coqchk(mod.COQ_PROPS)
        extra["coqchk"] = chk_out[-3000:]
        obligations.append(Obligation("coqchk", "P", chk_ok, chk_out[-400:]))

    # 5. known findings: replay each recorded witness
    known_lines = []
    for kf in known:
        if kf.get("status") == "fixed":
            continue
        if "case" not in kf:
            if kf.get("id", kf["what"]) in known_hit:
                known_lines.append(f"KNOWN-FINDING: property={ctx.prop_id} {kf['what']}")
            continue
        try:
            fails, detail = mod.replay(ctx, kf["case"])
        except Exception as e:
            fails, detail = True, f"replay raised {type(e).__name__}: {e}"
        if fails:
            known_lines.append(f"KNOWN-FINDING: property={ctx.prop_id} {kf['what']}")
        else:
            ctx.notes.append(f"known finding {kf.get('id')} no longer reproduces: {detail}")
    extra["known_findings_replayed"] = known_lines
    extra["fingerprints_changed"] = ctx.changed_files
    extra["escalated_budget"] = ctx.escalated
    extra["notes"] = ctx.notes

    failing = [o for o in obligations if not o.ok]
    violations = 0
    rc = 0
    if failing:
        # 6. violation search on the implementation
        case = None
        for h in hints:
            if "impl_violation" in h:
                case = h["impl_violation"]
                break
        if case is None and hasattr(mod, "search"):
            try:
                with _watchdog(int(os.environ.get("VERIF_SEARCH_LIMIT", "600")), "violation search"):
                    case = mod.search(ctx, hints)
            except Exception:
                import traceback
                ctx.notes.append("search raised: " + traceback.format_exc()[-800:])
        if case is not None and _matches_known(case, known):
            case = None if not _other_failures(failing) else case
        payload = {
            "property": ctx.prop_id,
            "seed": ctx.seed,
            "tier": ctx.tier,
            "failed_obligations": [dataclasses.asdict(o) for o in failing],
            "hints": hints[:10],
        }
        if case is not None:
            payload.update({"kind": "impl-violation", "case": case})
            path = write_replay(ctx, payload)
            print(f"VIOLATION property={ctx.prop_id} replay={path}")
        else:
            payload.update({"kind": "no-failing-input-found", "case": None,
                            "obligation": "; ".join(o.name for o in failing)})
            path = write_replay(ctx, payload)
            print(f"VIOLATION property={ctx.prop_id} replay={path} no-failing-input-found")
        violations = 1
        rc = 1
    for l in known_lines:
        print(l)
    trusted = BASE_TRUSTED + list(getattr(mod, "TRUSTED", []))
    write_evidence(ctx, obligations, corr, assumptions, trusted, violations, extra)
    n_ok = sum(1 for o in obligations if o.ok)
    print(f"{ctx.prop_id} [{ctx.tier}] obligations {n_ok}/{len(obligations)} discharged; "
          f"{sum(c.evaluations for c in corr)} correspondence cases; {time.time()-ctx.t0:.1f}s")
    for o in failing:
        print(f"  FAILED {o.kind} {o.name}: {o.detail[:300]}")
    return rc


def _matching_known(case: dict, known: List[dict]):
    for kf in known:
        if kf.get("status") == "fixed":
            continue
        m = kf.get("match") or {}
        if m and all(case.get(k) == v for k, v in m.items()):
            return kf
    return None


def _matches_known(case: dict, known: List[dict]) -> bool:
    return _matching_known(case, known) is not None


def _other_failures(failing: List[Obligation]) -> bool:
    return any(o.kind in ("P", "G") for o in failing)


def coqchk(vfile: str) -> (bool, str):
    mod = "HV." + vfile[len("theories/"):-2].replace("/", ".")
    with _Lock():
        rc, out = _run(["coqchk", "-silent", "-o", "-Q", "theories", "HV", "-Q", "gen", "HVgen", mod], cwd=COQ, timeout=3000)
    return rc == 0, out
