#!/bin/bash
HERE="$(cd "$(dirname "$0")" && pwd)"
export VERIF_REPO="${VERIF_REPO:-/repo}"
export PYTHONPATH="$VERIF_REPO:$HERE"
export PYTHONHASHSEED=0 PYTHONDONTWRITEBYTECODE=1 SALADDAIS_HIPPOLYZER_VERIF=1 TZ=UTC
cd "$HERE"
exec /venv/bin/python -W ignore -m harness.setup
