#!/venv/bin/python
"""tools/kf.py fixed C12 <commit> "<what>"   |   tools/kf.py known C12 <id> "<what>" '{"class":"..."}' """
import json, sys
p = "/verif/known_findings.json"
d = json.load(open(p))
kind = sys.argv[1]
if kind == "fixed":
    _, _, prop, commit, what = sys.argv
    d["findings"].append({"property": prop, "status": "fixed", "commit": commit, "what": what,
                          "line": f"fixed: property={prop} {commit} {what}"})
else:
    _, _, prop, fid, what, match = sys.argv
    d["findings"].append({"property": prop, "status": "known", "id": fid, "what": what, "match": json.loads(match)})
json.dump(d, open(p, "w"), indent=1)
print("ok", len(d["findings"]))
