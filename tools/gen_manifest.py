#!/venv/bin/python
"""Regenerate MANIFEST.json from tools/manifest_table.json (claimed checks) + properties.jsonl."""
import json, os
HERE = os.path.dirname(os.path.dirname(os.path.abspath(__file__)))
tbl = json.load(open(os.path.join(HERE, "tools", "manifest_table.json")))
props = [json.loads(l) for l in open(os.path.join(HERE, "properties.jsonl"))]
checks, na = [], []
for p in props:
    pid = p["id"]
    t = tbl["checks"].get(pid)
    if t is None:
        na.append({"property_id": pid, "reason": tbl["not_claimed"].get(pid, "check not built yet (work in progress); the property is expressible as an executable Gallina model, see DESIGN.md")})
        continue
    checks.append({
        "property_id": pid,
        "quick_cmd": f"./check {pid} --tier quick",
        "thorough_cmd": f"./check {pid} --tier thorough",
        "evidence_file": f"/verif/evidence/{pid}.json",
        "replay_cmd_template": f"./check {pid} --replay {{path}}",
        "engine": "coq-proof+correspondence",
        "level_claimed": {"category": "proof", "text": t["text"], "design_ref": t.get("design_ref", "DESIGN.md section 8 " + pid)},
        "level_note": t["note"],
        "technique": t["technique"],
    })
m = {
    "version": 1,
    "setup_cmd": "./setup.sh",
    "hooks": {"guard": "SALADDAIS_HIPPOLYZER_VERIF", "enable": "export SALADDAIS_HIPPOLYZER_VERIF=1 (set by ./check; no guarded source hooks are needed so far: all observation points are reached from outside)",
              "baseline_off_cmd": "cd /repo && env -u SALADDAIS_HIPPOLYZER_VERIF /venv/bin/python -m pytest -ra -q -p no:cacheprovider --timeout=900 --continue-on-collection-errors",
              "source_commits": tbl.get("hook_commits", []), "add_only": True},
    "engines": [{"name": "coq-proof+correspondence", "path": "/verif/check", "serves_properties": [c["property_id"] for c in checks],
                 "kind_free_text": "Coq 8.16 theorems over hand-written Gallina models; models tied to /repo on every run by (G) regenerated data obligations and (M) extracted-OCaml model vs implementation correspondence; impl-level oracle searches for a failing input when an obligation breaks"}],
    "checks": checks,
    "notes": tbl.get("notes", ""),
    "not_applicable": na,
}
json.dump(m, open(os.path.join(HERE, "MANIFEST.json"), "w"), indent=1)
print("claimed:", [c["property_id"] for c in checks])
