#!/bin/bash
# usage: tools/verify_seed.sh <ID> [seed-dir]   -- confirm a seeded change (suite green, demo fails with / passes without) and run our check on it
id=$1; src=${2:-/tmp/seed-$id/_seed}
dst=/verif/${SEEDDIR:-seeded}/$id
mkdir -p $dst
[ -f $src/patch.diff ] && cp $src/patch.diff $src/demo.py $src/meta.json $dst/ 2>/dev/null
d=$(mktemp -d /var/tmp/hv-seed.XXXXXX)
trap 'rm -rf "$d"' EXIT
rsync -a --exclude .git --exclude '__pycache__' /repo/ "$d/"
mkdir -p $d/_seed; cp $dst/demo.py $d/_seed/
cd $d
PYTHONPATH=$d timeout 600 /venv/bin/python -W ignore _seed/demo.py > $d/demo0.log 2>&1; r0=$?
patch -p1 -s < $dst/patch.diff || { echo "PATCH FAILED"; exit 2; }
suite=$(PYTHONPATH=$d timeout 900 /venv/bin/python -m pytest -q -p no:cacheprovider tests 2>&1 | tail -1)
PYTHONPATH=$d timeout 600 /venv/bin/python -W ignore _seed/demo.py > $d/demo1.log 2>&1; r1=$?
echo "demo without change: exit $r0 ; with change: exit $r1 ; suite: $suite"
cd /verif
if [ -z "$NOCHECK" ]; then
  VERIF_REPO=$d timeout 3000 ./check $id --tier ${TIER:-quick} > $d/check.log 2>&1; rc=$?
  echo "check exit=$rc"; grep -E "VIOLATION|FAILED" $d/check.log | head -5
  rp=$(grep -o 'replay=[^ ]*' $d/check.log | head -1 | cut -d= -f2)
  /venv/bin/python - "$dst/meta.json" "$r0" "$r1" "$suite" "$rc" "$(grep -E 'VIOLATION' $d/check.log | head -1)" <<'PY'
import json, sys
p, r0, r1, suite, rc, line = sys.argv[1:7]
m = json.load(open(p))
m["verification"] = {"ran": "tools/verify_seed.sh (scratch copy of /repo under /var/tmp; demo before patch, repo test-suite and demo after patch, then ./check with VERIF_REPO=<scratch>)",
                     "demo_exit_without_change": int(r0), "demo_exit_with_change": int(r1), "suite_with_change": suite,
                     "check_exit_with_change": int(rc), "check_line": line}
json.dump(m, open(p, "w"), indent=1)
PY
  [ -n "$rp" ] && [ -f "$rp" ] && /venv/bin/python -c "import json,sys; d=json.load(open('$rp')); print('replay kind:', d.get('kind')); print(json.dumps(d.get('case'))[:600])"
fi
