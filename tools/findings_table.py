#!/venv/bin/python
import json
d = json.load(open("/verif/known_findings.json"))
print("| prop | status | commit / id | what failed |")
print("|---|---|---|---|")
for f in sorted(d["findings"], key=lambda f: (f["property"], f["status"])):
    print(f"| {f['property']} | {f['status']} | {f.get('commit') or f.get('id')} | {f['what'].replace('|','/')} |")
