#!/bin/bash
# usage: tools/repo_fix.sh <patch.diff> "<commit message starting with fix:>"  -- apply, run the suite, commit only if the baseline result is unchanged
set -e
P=$(cd /verif && realpath "$1")
cd /repo
git diff --quiet || { echo "repo dirty"; exit 2; }
patch -p1 -s < "$P"
find . -name '*.orig' -delete
res=$(/venv/bin/python -m pytest -q -p no:cacheprovider tests 2>&1 | tail -1)
echo "$res"
case "$res" in
  "1 failed, 331 passed, 6 skipped"*) git commit -qam "$2"; echo "COMMITTED $(git log --format=%h -1)";;
  *) echo "SUITE CHANGED - reverting"; git checkout -- .; exit 1;;
esac
