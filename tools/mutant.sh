#!/bin/bash
# usage: tools/mutant.sh <patch.diff> <PROP> [tier]   -- run a check against a patched scratch copy of /repo
set -e
patch=$(realpath "$1"); prop=$2; tier=${3:-quick}
d=$(mktemp -d /var/tmp/hv-mut.XXXXXX)
trap 'rm -rf "$d"' EXIT
rsync -a --exclude .git --exclude '__pycache__' /repo/ "$d/"
(cd "$d" && patch -p1 -s < "$patch")
if [ -n "$RUN_SUITE" ]; then (cd "$d" && PYTHONPATH="$d" /venv/bin/python -m pytest -q -x -p no:cacheprovider tests 2>&1 | tail -3); fi
cd /verif && VERIF_REPO="$d" ./check "$prop" --tier "$tier"; echo "exit=$?"
