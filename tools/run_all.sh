#!/bin/bash
# tools/run_all.sh [tier]  -- run every claimed check on /repo; summary at the end
tier=${1:-quick}
cd "$(dirname "$0")/.."
ids=$(/venv/bin/python -c "import json;print(' '.join(c['property_id'] for c in json.load(open('MANIFEST.json'))['checks']))")
fail=0
for id in $ids; do
  s=$(date +%s)
  out=$(./check $id --tier $tier 2>&1); rc=$?
  e=$(date +%s)
  line=$(echo "$out" | grep -E "^C[0-9]+ \[" | tail -1)
  echo "$id rc=$rc $((e-s))s  $line"
  echo "$out" | grep -E "VIOLATION|FAILED" | head -5
  [ $rc -ne 0 ] && fail=1
done
echo "ALL DONE fail=$fail"
