#!/venv/bin/python
"""Print a markdown table of /verif/seeded/*/meta.json (used for DESIGN.md section 13)."""
import json, glob, os
rows = []
for p in sorted(glob.glob("/verif/%s/*/meta.json" % (__import__("sys").argv[1] if len(__import__("sys").argv) > 1 else "seeded"))):
    m = json.load(open(p))
    v = m.get("verification", {})
    caught = v.get("check_exit_with_change")
    line = v.get("check_line", "")
    rows.append((m.get("property"), m.get("summary", "")[:230].replace("|", "/").replace("\n", " "),
                 m.get("needs", "")[:200].replace("|", "/").replace("\n", " "),
                 "caught (exit 1, concrete replay)" if caught == 1 and "no-failing-input-found" not in line else
                 ("caught (no-failing-input-found)" if caught == 1 else ("not run" if caught is None else "MISSED")),
                 m.get("caught_after", "")))
print("| prop | seeded change | needs | quick check | note |")
print("|---|---|---|---|---|")
for r in rows:
    print("| " + " | ".join(str(x) for x in r) + " |")
