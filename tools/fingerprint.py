#!/venv/bin/python
"""tools/fingerprint.py : (re)write harness/fingerprints.json from /repo's current working tree (the baseline the checks compare against)."""
import json, sys
sys.path.insert(0, "/verif")
from harness.common import framework as fw
out = {}
for line in open("/verif/properties.jsonl"):
    pid = json.loads(line)["id"]
    out[pid] = fw.fingerprints(pid, "/repo")
json.dump(out, open("/verif/harness/fingerprints.json", "w"), indent=1, sort_keys=True)
print("written", sum(len(v) for v in out.values()), "fingerprints")
